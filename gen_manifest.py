#!/usr/bin/env python3
"""Regenerates MANIFEST.json from the table below (kept as a script so the manifest stays consistent)."""
import json, subprocess

HOOK_COMMITS = subprocess.run(
    ["git", "-C", "/repo", "log", "--format=%H %s", "--grep=^verif hook"],
    capture_output=True, text=True).stdout.strip().splitlines()

# id -> (category, technique, level text, level_note, design_ref)
CHECKS = {}

def add(pid, category, technique, text, note, ref):
    CHECKS[pid] = (category, technique, text, note, ref)

add("C07", "exploration",
    "runtime differential monitor: real Message ops vs Vec<u8> model, whole-pool comparison after every op; random histories + exhaustive small-scope enumeration of executions",
    "Held on every executed operation history: each Message in a pool of aliases is compared (len/iter/to_vec/Display/==) with a byte-vector model after every operation, so both functional correctness and non-interference between aliases are observed, including all op sequences up to depth 3/4 on 2-chunk messages. Sampling beyond that scope; not a proof.",
    "Trusts Vec<u8> slicing as the reference and the harness's own bookkeeping; inverted ranges (start > end) are outside the statement and not generated.",
    "DESIGN.md §3 C07")

NOT_YET = {
}

ALL = ["C%02d" % i for i in range(1, 21)]

manifest = {
    "version": 1,
    "setup_cmd": "./check setup",
    "hooks": {
        "guard": "cargo feature `verif` on crate elvis-core (off by default)",
        "enable": "the harness crate /verif/harness depends on /repo/sim/elvis-core by path with features=[\"verif\"] (C18 additionally \"compute_checksum\"); ./check rebuilds it from /repo's working tree on every invocation",
        "baseline_off_cmd": "./check baseline-off",
        "source_commits": [l.split()[0] for l in HOOK_COMMITS],
        "add_only": True,
    },
    "engines": [
        {"name": "vcheck", "path": "harness/", "serves_properties": sorted(CHECKS),
         "kind_free_text": "Rust harness: drives the real elvis-core/elvis code with generated workloads, fault plans and schedules in sharded worker subprocesses; monitors (reference models, history checkers, invariant oracles) observe at API boundaries and at feature-gated hooks; verdicts three-valued (0 held / 1 violation / 2 inconclusive)"},
    ],
    "checks": [],
    "not_applicable": [],
    "notes": "Runtime monitoring only. Exit 2 means inconclusive or harness error, never a verdict. Known findings: known_findings.json.",
}
for pid in ALL:
    if pid in CHECKS:
        cat, tech, text, note, ref = CHECKS[pid]
        manifest["checks"].append({
            "property_id": pid,
            "quick_cmd": f"./check {pid} quick",
            "thorough_cmd": f"./check {pid} thorough",
            "evidence_file": f"/verif/evidence/{pid}.json",
            "replay_cmd_template": f"./check {pid} --replay {{path}}",
            "engine": "vcheck",
            "level_claimed": {"category": cat, "text": text, "design_ref": ref},
            "level_note": note,
            "technique": tech,
        })
    else:
        manifest["not_applicable"].append({
            "property_id": pid,
            "reason": NOT_YET.get(pid, "monitor not built yet in this round (runtime monitoring is applicable; see DESIGN.md §3) — not claimed until its check exists and is silent on the unchanged tree"),
        })
json.dump(manifest, open("MANIFEST.json", "w"), indent=1)
print("checks:", [c["property_id"] for c in manifest["checks"]])
