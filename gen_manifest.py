#!/usr/bin/env python3
"""Regenerates MANIFEST.json from the table below (kept as a script so the manifest stays consistent)."""
import json, subprocess

HOOK_COMMITS = subprocess.run(
    ["git", "-C", "/repo", "log", "--format=%H %s", "--grep=^verif hook"],
    capture_output=True, text=True).stdout.strip().splitlines()

# id -> (category, technique, level text, level_note, design_ref)
CHECKS = {}

def add(pid, category, technique, text, note, ref):
    CHECKS[pid] = (category, technique, text, note, ref)

add("C07", "exploration",
    "runtime differential monitor: real Message ops vs Vec<u8> model, whole-pool comparison after every op; random histories + exhaustive small-scope enumeration of executions",
    "Held on every executed operation history: each Message in a pool of aliases is compared (len/iter/to_vec/Display/==) with a byte-vector model after every operation, so both functional correctness and non-interference between aliases are observed, including all op sequences up to depth 3/4 on 2-chunk messages. Sampling beyond that scope; not a proof.",
    "Trusts Vec<u8> slicing as the reference and the harness's own bookkeeping; inverted ranges (start > end) are outside the statement and not generated.",
    "DESIGN.md §3 C07")


add("C01", "exploration",
    "runtime history monitor on the real TCB pair: byte-stream prefix oracle after every step + bounded-round convergence oracle over random fault schedules",
    "Held on every executed schedule: two real Tcb endpoints are driven through random interleavings of writes/reads/timer ticks and per-segment deliver/drop/duplicate/reorder choices; after every step what each side has read must be a prefix of what the other wrote, and after faults stop a bounded number of fair rounds must deliver everything, empty both queues and silence both endpoints. 3,200 (quick) / 204,800 (thorough) schedules; sampling, not proof.",
    "Trusts the harness's driver (tcbsim.rs) and its round bound; close() is not issued here (C03).",
    "DESIGN.md §3 C01")
add("C03", "exploration",
    "runtime monitor over enumerated and random executions of the real TCB pair: RFC 9293 transition-relation checker on every API call, sequence synchronisation invariants, data-before-FIN and bounded release oracles",
    "Every API call's (state before, state after) must be a path of RFC 9293 fig. 5 edges justified by segments actually delivered; rcv.nxt/snd.nxt/snd.una of the two sides are compared at every step and for equality at quiescence; the first time a side shows the peer's FIN consumed it must have been able to read everything written before that close; after both closes a fair network must release both ends within 40 rounds + 2*MSL without RST. Bounded DFS over executions (state-hashed, budgeted) plus random schedules; all 19 edges are exercised in every quick run.",
    "DFS is budget-bounded (not exhaustive unless dfs_exhausted_within_budget says so); applications read eagerly.",
    "DESIGN.md §3 C03")
add("C09", "exploration",
    "runtime differential monitor: real IpTable/Ipv4Net vs list model and u64 interval arithmetic, probed at every boundary address after every operation",
    "Held on all executed table histories and arithmetic cases: longest-prefix result, add/remove return values and iteration order are compared with an independent model after every operation at every boundary address of every network ever inserted; subnet arithmetic is compared with interval arithmetic for all 33 mask lengths and all 33x33 pairs.",
    "Sampling of the 2^32 address space with boundary bias; the model is ~20 lines of independent code.",
    "DESIGN.md §3 C09")
add("C10", "exploration",
    "runtime invariant + reference-model monitor on the real fragmenter (random datagrams through MTU chains; exhaustive small scope in thorough)",
    "Every produced fragment list is checked for fit, 8-byte aligned consecutive offsets, byte-exact content placement, MF/DF flags relative to the original datagram, preservation of all other fields, and equality with an independently computed RFC 791 cut; pass-through and discard rules are checked on the same inputs.",
    "Input headers are self-consistent; checksum field is not judged (C18).",
    "DESIGN.md §3 C10")
add("C11", "exploration",
    "runtime history monitor: every Reassembly::receive_packet result vs a block-coverage model, expiry callbacks observed by probing a clone",
    "For interleaved, shuffled, duplicated and overlapping fragments of up to 5 datagrams the real reassembler must complete exactly when the model's coverage since the last completion is total and return the original bytes and header; the effect of every expiry callback (fresh or stale epoch) is observed by feeding the missing blocks to a clone. Two genuine defects found here are recorded as known findings.",
    "Fragments come from the harness's own cutter; completion is judged in RFC 791's 8-octet blocks.",
    "DESIGN.md §3 C11")
add("C12", "exploration",
    "metamorphic runtime monitor: same schedule under shifted ISNs must give identical normalised traces; comparison primitives vs modular arithmetic",
    "Each C01-style schedule is executed under two ISN pairs, the second placed so the sequence space wraps 2^32 or crosses 2^31 during handshake or transfer; flags, lengths, windows, relative seq/ack of every emitted segment, states, deliveries and releases must agree step by step. mod_lt/leq/gt/geq/bounded are compared with (b-a) mod 2^32 on millions of boundary-biased samples.",
    "Equality of two runs is judged, not their correctness (C01 does that).",
    "DESIGN.md §3 C12")
add("C17", "exploration",
    "runtime robustness monitor: crafted segments injected into a live real TCB pair; no-panic, send-window and unacceptable-segment-has-no-effect oracles (immediate and delayed)",
    "All 64 flag combinations with boundary-biased seq/ack/window/length are injected at every reachable state, interleaved with legitimate traffic; any panic is a violation, new data must stay inside SND.UNA+SND.WND, and a segment that RFC 9293 table 6 makes unacceptable must change neither state nor delivered bytes, immediately and (mode U) after the legitimate stream continues over a fair network. One deliberate deviation of the implementation (window widened to RCV.NXT-1) is a known finding.",
    "Acceptability is computed by the harness from the victim's observed RCV.NXT/RCV.WND; ACK bookkeeping and replies to unacceptable segments are not judged.",
    "DESIGN.md §3 C17")

NOT_YET = {
}

ALL = ["C%02d" % i for i in range(1, 21)]

manifest = {
    "version": 1,
    "setup_cmd": "./check setup",
    "hooks": {
        "guard": "cargo feature `verif` on crate elvis-core (off by default)",
        "enable": "the harness crate /verif/harness depends on /repo/sim/elvis-core by path with features=[\"verif\"] (C18 additionally \"compute_checksum\"); ./check rebuilds it from /repo's working tree on every invocation",
        "baseline_off_cmd": "./check baseline-off",
        "source_commits": [l.split()[0] for l in HOOK_COMMITS],
        "add_only": True,
    },
    "engines": [
        {"name": "vcheck", "path": "harness/", "serves_properties": sorted(CHECKS),
         "kind_free_text": "Rust harness: drives the real elvis-core/elvis code with generated workloads, fault plans and schedules in sharded worker subprocesses; monitors (reference models, history checkers, invariant oracles) observe at API boundaries and at feature-gated hooks; verdicts three-valued (0 held / 1 violation / 2 inconclusive)"},
    ],
    "checks": [],
    "not_applicable": [],
    "notes": "Runtime monitoring only. Exit 2 means inconclusive or harness error, never a verdict. Known findings: known_findings.json.",
}
for pid in ALL:
    if pid in CHECKS:
        cat, tech, text, note, ref = CHECKS[pid]
        manifest["checks"].append({
            "property_id": pid,
            "quick_cmd": f"./check {pid} quick",
            "thorough_cmd": f"./check {pid} thorough",
            "evidence_file": f"/verif/evidence/{pid}.json",
            "replay_cmd_template": f"./check {pid} --replay {{path}}",
            "engine": "vcheck",
            "level_claimed": {"category": cat, "text": text, "design_ref": ref},
            "level_note": note,
            "technique": tech,
        })
    else:
        manifest["not_applicable"].append({
            "property_id": pid,
            "reason": NOT_YET.get(pid, "monitor not built yet in this round (runtime monitoring is applicable; see DESIGN.md §3) — not claimed until its check exists and is silent on the unchanged tree"),
        })
json.dump(manifest, open("MANIFEST.json", "w"), indent=1)
print("checks:", [c["property_id"] for c in manifest["checks"]])
