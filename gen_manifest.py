#!/usr/bin/env python3
"""Regenerates MANIFEST.json from the table below (kept as a script so the manifest stays consistent)."""
import json, subprocess

HOOK_COMMITS = subprocess.run(
    ["git", "-C", "/repo", "log", "--format=%H %s", "--grep=^verif hook"],
    capture_output=True, text=True).stdout.strip().splitlines()

# id -> (category, technique, level text, level_note, design_ref)
CHECKS = {}

def add(pid, category, technique, text, note, ref):
    CHECKS[pid] = (category, technique, text, note, ref)

add("C07", "exploration",
    "runtime differential monitor: real Message ops vs Vec<u8> model, whole-pool comparison after every op; random histories + exhaustive small-scope enumeration of executions",
    "Held on every executed operation history: each Message in a pool of aliases is compared (len/iter/to_vec/Display/==) with a byte-vector model after every operation, so both functional correctness and non-interference between aliases are observed, including all op sequences up to depth 3/4 on 2-chunk messages. Sampling beyond that scope; not a proof.",
    "Trusts Vec<u8> slicing as the reference and the harness's own bookkeeping; inverted ranges (start > end) are outside the statement and not generated.",
    "DESIGN.md §3 C07")


add("C01", "exploration",
    "runtime history monitor on the real TCB pair: byte-stream prefix oracle after every step + bounded-round convergence oracle over random fault schedules",
    "Held on every executed schedule: two real Tcb endpoints are driven through random interleavings of writes/reads/timer ticks and per-segment deliver/drop/duplicate/reorder choices; after every step what each side has read must be a prefix of what the other wrote, and after faults stop a bounded number of fair rounds must deliver everything, empty both queues and silence both endpoints. 3,200 (quick) / 204,800 (thorough) schedules; sampling, not proof.",
    "Trusts the harness's driver (tcbsim.rs) and its round bound; close() is not issued here (C03).",
    "DESIGN.md §3 C01")
add("C03", "exploration",
    "runtime monitor over enumerated and random executions of the real TCB pair: RFC 9293 transition-relation checker on every API call, sequence synchronisation invariants, data-before-FIN and bounded release oracles",
    "Every API call's (state before, state after) must be a path of RFC 9293 fig. 5 edges justified by segments actually delivered; rcv.nxt/snd.nxt/snd.una of the two sides are compared at every step and for equality at quiescence; the first time a side shows the peer's FIN consumed it must have been able to read everything written before that close; after both closes a fair network must release both ends within 40 rounds + 2*MSL without RST. Bounded DFS over executions (state-hashed, budgeted) plus random schedules; all 19 edges are exercised in every quick run.",
    "DFS is budget-bounded (not exhaustive unless dfs_exhausted_within_budget says so); applications read eagerly.",
    "DESIGN.md §3 C03")
add("C09", "exploration",
    "runtime differential monitor: real IpTable/Ipv4Net vs list model and u64 interval arithmetic, probed at every boundary address after every operation",
    "Held on all executed table histories and arithmetic cases: longest-prefix result, add/remove return values and iteration order are compared with an independent model after every operation at every boundary address of every network ever inserted; subnet arithmetic is compared with interval arithmetic for all 33 mask lengths and all 33x33 pairs.",
    "Sampling of the 2^32 address space with boundary bias; the model is ~20 lines of independent code.",
    "DESIGN.md §3 C09")
add("C10", "exploration",
    "runtime invariant + reference-model monitor on the real fragmenter (random datagrams through MTU chains; exhaustive small scope in thorough)",
    "Every produced fragment list is checked for fit, 8-byte aligned consecutive offsets, byte-exact content placement, MF/DF flags relative to the original datagram, preservation of all other fields, and equality with an independently computed RFC 791 cut; pass-through and discard rules are checked on the same inputs.",
    "Input headers are self-consistent; checksum field is not judged (C18).",
    "DESIGN.md §3 C10")
add("C11", "exploration",
    "runtime history monitor: every Reassembly::receive_packet result vs a block-coverage model, expiry callbacks observed by probing a clone",
    "For interleaved, shuffled, duplicated and overlapping fragments of up to 5 datagrams the real reassembler must complete exactly when the model's coverage since the last completion is total and return the original bytes and header; the effect of every expiry callback (fresh or stale epoch) is observed by feeding the missing blocks to a clone. Two genuine defects found here are recorded as known findings.",
    "Fragments come from the harness's own cutter; completion is judged in RFC 791's 8-octet blocks.",
    "DESIGN.md §3 C11")
add("C12", "exploration",
    "metamorphic runtime monitor: same schedule under shifted ISNs must give identical normalised traces; comparison primitives vs modular arithmetic",
    "Each C01-style schedule is executed under two ISN pairs, the second placed so the sequence space wraps 2^32 or crosses 2^31 during handshake or transfer; flags, lengths, windows, relative seq/ack of every emitted segment, states, deliveries and releases must agree step by step. mod_lt/leq/gt/geq/bounded are compared with (b-a) mod 2^32 on millions of boundary-biased samples.",
    "Equality of two runs is judged, not their correctness (C01 does that); half of the schedules also close.",
    "DESIGN.md §3 C12")
add("C17", "exploration",
    "runtime robustness monitor: crafted segments injected into a live real TCB pair; no-panic, send-window and unacceptable-segment-has-no-effect oracles (immediate and delayed)",
    "All 64 flag combinations with boundary-biased seq/ack/window/length are injected at every reachable state, interleaved with legitimate traffic; any panic is a violation, new data must stay inside SND.UNA+SND.WND, SND.WND itself must be the window RFC 9293's WL1/WL2 update rule (kept as a reference model in circular arithmetic) makes of the in-order arrivals, and a segment that RFC 9293 table 6 makes unacceptable must change neither state nor delivered bytes, immediately and (mode U) after the legitimate stream continues over a fair network. One deliberate deviation of the implementation (window widened to RCV.NXT-1) is a known finding.",
    "Acceptability is computed by the harness from the victim's observed RCV.NXT/RCV.WND; the window reference model is re-synchronised on arrivals it cannot judge (out of order, non-ESTABLISHED, SYN/FIN/RST); replies to unacceptable segments are not judged.",
    "DESIGN.md §3 C17")


add("C02", "exploration",
    "runtime history monitor at the socket boundary over the full stack: every written byte tagged (connection, offset), every read recorded (asked, got); stream-equality, read-bound and cross-talk oracles; H4 frame hook for loss/duplication; current_thread (virtual time) and multi_thread runtimes",
    "Held on every executed scenario: 1..32 clients (occasionally a crowd of 130..220 connected before the first accept) against one listening server through sockets/TCP|UDP/IPv4/ARP/link with random write sizes and spacing, read sizes and APIs, MTUs, jitter and bounded loss/duplication, on both tokio runtime flavours. What each server socket read must equal the concatenation of that client's writes, no read may exceed its bound, no byte may show up on another connection, datagrams arrive intact or not at all at the connected peer only. Five genuine defects found here were repaired.",
    "Interleavings of the multi-thread runtime are only those the OS scheduler produced (evidence counts distinct read patterns); a wall-clock timeout there is inconclusive.",
    "DESIGN.md §3 C02")
add("C04", "exploration",
    "runtime monitor with reference demultiplexing rule: recorder applications log every demux with Control contents; the H4 hook tells which taps each frame reached; exact expected delivery set per datagram",
    "For generated machines/bindings/datagrams the set of (machine, application) that received each datagram is compared with exact-then-wildcard-else-nobody evaluated on every machine the frame actually reached; payload, source and destination address/port must be unchanged; repeated binds must be refused and the first binding keep working; oversize datagrams refused without side effects.",
    "Frame reach is observed, not modelled; first bind wins; ARP is chosen per machine.",
    "DESIGN.md §3 C04")
add("C05", "exploration",
    "runtime monitor on the link: harness link-level protocol on every tap + H4 frame hook, exact virtual time; delivery-set, MTU-boundary, address-uniqueness and timing-lower-bound oracles",
    "For generated networks/taps/frames: unicast reaches exactly the owner tap, unknown addresses nobody, broadcast every other tap exactly once, payload and sender address unchanged, len>MTU refused with an error and never on the wire, len==MTU accepted, tap addresses pairwise distinct, and on the paused clock no delivery earlier than latency base + serialisation time.",
    "Only lower time bounds are judged; own-broadcast echo is not judged.",
    "DESIGN.md §3 C05")
add("C06", "exploration",
    "runtime monitor of Arp::resolve results and completion times against owner taps, own subnet arithmetic and the ARP frames the H4 hook saw delivered; loss plans over requests/replies; exact virtual time",
    "Every resolve returns either the owner's tap address (or the gateway owner's when the harness's own mask arithmetic puts the target off-subnet) or an error; concurrent resolvers agree; an error is only allowed if no ARP packet announcing the address reached the resolver between call and return; nothing takes longer than 10 x 200 ms of simulated time; replies never announce unclaimed addresses.",
    "One network per scenario (the ARP table is per machine, not per tap); distinct claimed addresses; mask (0..=32) and gateway per machine.",
    "DESIGN.md §3 C06")
add("C08", "exploration",
    "runtime differential monitor of all six codecs: encode/decode round trips, re-encoding of accepted mutated byte strings, byte-for-byte comparison with etherparse 0.10 and a hand-written packer",
    "Held on every generated header value and accepted byte string (777,600 per quick run; DHCP strings are arbitrary Unicode text): decode(encode(v)) = v field by field, encode(decode(b)) = consumed prefix, IPv4/UDP/TCP bytes equal two independent reference encoders, decoders extract the same fields from reference packets. One deviation (TCP reserved/ECN bits are dropped) is a known finding.",
    "Default build: checksum fields are zero by the stack's convention (C18 covers the checksum build).",
    "DESIGN.md §3 C08")
add("C13", "exploration",
    "runtime ordering monitor with a process-wide SeqCst stamp counter: barrier arrivals of harness applications vs every frame (H4) and every delivery; exit-status and bounded-return oracles in exact virtual time; multi-thread runs for order only",
    "No frame and no application delivery may be stamped before the last harness application arrived at the barrier (sound on any runtime: the barrier cannot have released earlier); the returned status must be that of a shutdown request no other request finished before, TimedOut iff none preceded the timeout and never before it elapsed, a run nothing can end (no machines, machines without protocols, idle machines) ends by its timeout only, and the run returns within timeout + 1 s of simulated time even with applications that never finish.",
    "Requests are ordered by their SeqCst stamps also within one simulated instant (bursts of up to 15 requests); multi-thread time bounds not judged.",
    "DESIGN.md §3 C13")
add("C14", "exploration",
    "runtime no-panic monitor: all decoders and the NDL parser on mutated inputs under catch_unwind; malformed raw frames injected into live hosts/router/DHCP/DNS servers in worker subprocesses whose death is attributed to the running scenario",
    "No generated byte string or description text made a decoder or the parser unwind (315,000 inputs per quick run, single faults and compound mutations, plus the stack's next step after an accepted header), and with 20..80 malformed frames per run (17 single-fault classes incl. fragments ending around the 64 KiB limit, and compound mutations) injected through PciSession::send_pci the process stayed alive, no application received an injected payload through an undecodable header, and the concurrent legitimate UDP exchange, routed datagrams and TCP stream completed intact with the scripted exit status. Thirteen crash sites found here were repaired.",
    "A panic caught in-process is what the simulator's hook would turn into process exit.",
    "DESIGN.md §3 C14")
add("C15", "exploration",
    "runtime history monitor: IpGenerator operations vs an interval/unit model; DHCP leases over the full stack vs Offers seen by the H4 hook, on both runtimes",
    "Every fetched address/subnet is free in the model, aligned, disjoint from everything held or blocked; None only when no unit can hold an aligned block; new_sub_no_ends offers exactly the host addresses; 1..40 concurrently starting DHCP clients get pairwise distinct leases from the pool, each equal to an Offer sent to that client's tap, and a released address is available again.",
    "Held units are returned whole; subnets whose addresses are all available already are returned as well (overlapping ranges); merging of adjacent returned units is not demanded.",
    "DESIGN.md §3 C15")
add("C16", "exploration",
    "runtime monitor with a reference walk over the configured routing tables: expected exact frame sequence (network, TTL) and final delivery or drop per datagram vs the H4 frame log and recorder applications; loop circuit breaker",
    "For generated line/star/ring topologies with correct, deleted, redirected (looping) and dangling /24 routes plus default, /16 and /32 routes (longest match decides), datagrams sent through the stack (TTL 30) or hand-built with initial TTL 0..255, every datagram's IPv4 frames must equal the reference walk's sequence - network by network, TTL initial-k at hop k, addresses and payload unchanged - it must arrive exactly once at the destination host or nowhere, never produce more frames than its initial TTL, and no unaccounted frame may exist.",
    "One MTU everywhere.",
    "DESIGN.md §3 C16")
add("C18", "exploration",
    "runtime monitor in the compute_checksum build: emitted checksums verified by an independent RFC 1071 implementation and compared with etherparse; reference packets fed to the decoders; exhaustive single-bit and sampled double-bit corruption; constructed sum=0xFFFF packets; every segment emitted by live TCB pairs under C01's fault schedules (retransmissions, pure ACKs, SYN/FIN/RST)",
    "Every emitted IPv4 header, UDP datagram and TCP segment (built by the header builder or emitted by a running connection, retransmissions included) verifies under RFC 1071 and equals the reference checksum; decoders accept reference packets (including the 0x0000 representation of a 0xFFFF sum) and reject every bit flip that changes the one's-complement sum.",
    "Separate build of the harness with elvis-core features verif+compute_checksum.",
    "DESIGN.md §3 C18")
add("C19", "exploration",
    "runtime monitor: parse(render(tree)) = tree over generated description trees and renderings; structural breaks must be rejected; generated valid descriptions executed on the paused clock with the process-wide H4 hook checking the described messages on the wire",
    "3,000 generated trees per quick run round-trip through the harness's renderer (tabs/4 spaces/CRLF, any section order) and core_parser; six kinds of structural breaks are always rejected with a message; ~170 generated valid descriptions (senders with counts, forward chains and ping-pong with distinct local/remote ports, shared capture factories, by name or address per reference, optional ARP, auto-protocol per machine with omitted protocols) end with Exited and every described message is seen as a UDP frame to the described address and port.",
    "Argument values exclude characters the grammar cannot carry.",
    "DESIGN.md §3 C19")
add("C20", "exploration",
    "runtime monitor: DnsClient results vs registered records; DNS frames decoded at the H4 hook (response echoes id and name of the query from that port); frame counts around repeated lookups prove cache hits put nothing on the network",
    "For generated record sets, clients and lookup sequences with reordering jitter every lookup returns the registered address, every response echoes its query and carries the right address, the number of queries equals the number of cold lookups, and repeated lookups add no frame from that client.",
    "Only registered names are looked up; a client in three runs 2..3 lookup sequences at once (disjoint names); the no-traffic rule for repeats is applied to single-sequence clients.",
    "DESIGN.md §3 C20")

NOT_YET = {
}

# fifth round: what was added to the workloads / stages (appended to the texts above)
MORE_TEXT = {
    "C02": "In a third of the runs the listening socket is closed as soon as the last expected connection was accepted while the accepted sockets stay in use.",
    "C05": "One case in 32 is a flood of 1,050..1,700 frames offered at one instant, so that a throughput-limited wire has a four-digit backlog.",
    "C13": "One paused run in ten is given a timeout that means 'no limit' (Duration::MAX, u64::MAX s, 2^62 s, 2^32 s, u64::MAX ms) through run_internet or run_internet_with_timeout and must still return the first requested status.",
    "C19": "The addresses the applications use sit anywhere in the last octet (0 and 255 included) and are covered by any mixture of ranges and single-address entries, tight or generous at either end, in any order; network ids and their order vary; in one run in three the machines are named like numbers or pieces of addresses (7, 2.1, 10.0.1, 1.256) and are still found by name. Two genuine defects found in the fifth round were repaired.",
}
MORE_TECH = {k: "; thorough tier adds a ThreadSanitizer stage (harness and std rebuilt with -Zsanitizer=thread, worker shards of the same workload and oracles, race reports with a repository frame are violations)" for k in ("C02", "C13", "C15")}
MORE_NOTE = {
    "C02": " A multi-thread run cut off by its wall-clock limit while reads were still returning is counted inconclusive.",
}
for _k in list(CHECKS):
    c = CHECKS[_k]
    CHECKS[_k] = (c[0], c[1] + MORE_TECH.get(_k, ""), (c[2] + " " + MORE_TEXT[_k]) if _k in MORE_TEXT else c[2], c[3] + MORE_NOTE.get(_k, ""), c[4])

ALL = ["C%02d" % i for i in range(1, 21)]

manifest = {
    "version": 1,
    "setup_cmd": "./check setup",
    "hooks": {
        "guard": "cargo feature `verif` on crate elvis-core (off by default)",
        "enable": "the harness crate /verif/harness depends on /repo/sim/elvis-core by path with features=[\"verif\"] (C18 additionally \"compute_checksum\"); ./check rebuilds it from /repo's working tree on every invocation",
        "baseline_off_cmd": "./check baseline-off",
        "source_commits": [l.split()[0] for l in HOOK_COMMITS],
        "add_only": True,
    },
    "engines": [
        {"name": "vcheck", "path": "harness/", "serves_properties": sorted(CHECKS),
         "kind_free_text": "Rust harness: drives the real elvis-core/elvis code with generated workloads, fault plans and schedules in sharded worker subprocesses; monitors (reference models, history checkers, invariant oracles) observe at API boundaries and at feature-gated hooks; verdicts three-valued (0 held / 1 violation / 2 inconclusive)"},
    ],
    "checks": [],
    "not_applicable": [],
    "notes": "Runtime monitoring only. Exit 2 means inconclusive or harness error, never a verdict. Known findings: known_findings.json.",
}
for pid in ALL:
    if pid in CHECKS:
        cat, tech, text, note, ref = CHECKS[pid]
        manifest["checks"].append({
            "property_id": pid,
            "quick_cmd": f"./check {pid} quick",
            "thorough_cmd": f"./check {pid} thorough",
            "evidence_file": f"/verif/evidence/{pid}.json",
            "replay_cmd_template": f"./check {pid} --replay {{path}}",
            "engine": "vcheck",
            "level_claimed": {"category": cat, "text": text, "design_ref": ref},
            "level_note": note,
            "technique": tech,
        })
    else:
        manifest["not_applicable"].append({
            "property_id": pid,
            "reason": NOT_YET.get(pid, "monitor not built yet in this round (runtime monitoring is applicable; see DESIGN.md §3) — not claimed until its check exists and is silent on the unchanged tree"),
        })
json.dump(manifest, open("MANIFEST.json", "w"), indent=1)
print("checks:", [c["property_id"] for c in manifest["checks"]])
