#!/usr/bin/env python3
"""Sanitizer stage: runs the tiny tier of one property's workload (same generators, same oracles, small sizes)
under Miri, the undefined-behaviour / aliasing / data-race interpreter, sharded over processes.

  tools/sanitize.py <ID> [--procs N] [--count K] [--timeout S] [--seed X]

The repository has no `unsafe` today, so Miri has nothing to find in it as it stands; the stage exists for the
changes that would introduce it (an `unsafe` fast path in Message, a `from_utf8_unchecked` in a decoder, a
`get_unchecked` in the reassembly bitmap ...), whose damage a native run need not show.

Verdict of the stage (three-valued, kept apart from the behavioural verdict of ./check):
  exit 0  every process finished and Miri reported nothing
  exit 1  Miri reported undefined behaviour (or the oracles, running under Miri, reported a violation):
          prints  VIOLATION property=<ID> replay=<log file>
  exit 2  inconclusive: Miri could not be built/started, or processes timed out
The result is merged into evidence/<ID>.json under coverage.sanitizer_stage when that file exists.
"""
import argparse, json, os, re, subprocess, sys, time, pathlib

VERIF = pathlib.Path(os.environ.get("VERIF_DIR", "/verif"))
H = VERIF / "harness"


def main():
    ap = argparse.ArgumentParser()
    ap.add_argument("id")
    ap.add_argument("--procs", type=int, default=16)
    ap.add_argument("--count", type=int, default=2)
    ap.add_argument("--timeout", type=int, default=900)
    ap.add_argument("--seed", type=int, default=int(os.environ.get("VERIF_SEED", "1")))
    a = ap.parse_args()
    env = dict(os.environ)
    env["CARGO_NET_OFFLINE"] = "true"
    # isolation off: the NDL part of C14 writes the text it parses to a scratch file; leak check stays on
    env["MIRIFLAGS"] = "-Zmiri-disable-isolation"
    env.setdefault("RUST_BACKTRACE", "1")
    base = ["cargo", "+nightly", "miri", "run", "--offline", "--target-dir", "target-miri", "--bin", "vcheck", "--"]
    logdir = VERIF / "replays" / a.id
    logdir.mkdir(parents=True, exist_ok=True)
    t0 = time.time()
    # build step (shared lock with ./check: never build a half-patched /repo)
    lock = ["flock", "-s", str(VERIF / ".repo.lock")] if not os.environ.get("VERIF_LOCK_HELD") else []
    b = subprocess.run(lock + base + ["list"], cwd=H, env=env, capture_output=True, text=True)
    if b.returncode != 0:
        print(f"[{a.id}] sanitizer stage INCONCLUSIVE: Miri build failed\n" + b.stderr[-1500:], file=sys.stderr)
        merge(a.id, {"tool": "miri", "verdict": "inconclusive", "reason": "build failed"})
        return 2
    build_s = time.time() - t0
    procs = []
    for shard in range(a.procs):
        log = logdir / f"miri-{a.seed}-{shard}.log"
        f = open(log, "w")
        p = subprocess.Popen(base + ["tiny", a.id, str(a.seed), str(shard), str(a.procs), str(a.count)], cwd=H, env=env, stdout=f, stderr=subprocess.STDOUT)
        procs.append((shard, p, log, f))
    deadline = time.time() + a.timeout
    done, ub, oracle, timed_out, other = 0, [], [], 0, []
    evaluations = observations = 0
    for shard, p, log, f in procs:
        try:
            p.wait(timeout=max(1, deadline - time.time()))
        except subprocess.TimeoutExpired:
            p.kill()
            p.wait()
            timed_out += 1
            f.close()
            continue
        f.close()
        text = log.read_text(errors="replace")
        m = re.search(r"TINY-DONE .*evaluations=(\d+) .*tallied_observations=(\d+) new_violation_signatures=\{(.*)\}", text)
        if re.search(r"^error: (Undefined Behavior|memory leaked|the evaluated program leaked|deadlock|abnormal termination)", text, re.M):
            ub.append((shard, log, first_error(text)))
        elif m:
            done += 1
            evaluations += int(m.group(1))
            observations += int(m.group(2))
            if m.group(3).strip():
                oracle.append((shard, log, m.group(3)))
        else:
            other.append((shard, log, first_error(text)))
    for shard, p, log, f in procs:
        if log.exists() and not any(log == x[1] for x in ub + oracle + other):
            log.unlink()
    wall = time.time() - t0
    stage = {
        "tool": "miri (cargo +nightly miri run, -Zmiri-disable-isolation, leak check on)",
        "workload": f"vcheck tiny {a.id}: {a.procs} processes x {a.count} scenarios of the tiny tier (same generators and oracles as the native check, sizes capped at 600 bytes)",
        "processes": a.procs, "processes_completed": done, "processes_timed_out": timed_out,
        "evaluations_under_miri": evaluations, "observations_under_miri": observations,
        "undefined_behaviour_reports": [f"shard {s}: {e}" for s, _, e in ub],
        "oracle_violations_under_miri": [f"shard {s}: {e}" for s, _, e in oracle],
        "unclassified_failures": [f"shard {s}: {e}" for s, _, e in other],
        "build_s": round(build_s, 1), "wall_s": round(wall, 1),
    }
    if ub or oracle:
        stage["verdict"] = "violated"
        merge(a.id, stage)
        for s, log, e in ub + oracle:
            print(f"VIOLATION property={a.id} replay={log}")
            print(f"  signature: miri:{e}")
        return 1
    if timed_out or other or done == 0:
        stage["verdict"] = "inconclusive"
        merge(a.id, stage)
        print(f"[{a.id}] sanitizer stage INCONCLUSIVE: completed={done} timed_out={timed_out} unclassified={[e for _,_,e in other]}", file=sys.stderr)
        return 2
    stage["verdict"] = "held on what was observed"
    merge(a.id, stage)
    print(f"[{a.id}] sanitizer stage (miri): {done}/{a.procs} processes, {evaluations} evaluations, {observations} observations, no report, wall={wall:.0f}s")
    return 0


def first_error(text):
    m = re.search(r"^error: (.*)$", text, re.M)
    msg = m.group(1).strip() if m else text.strip().splitlines()[-1][:200] if text.strip() else "no output"
    # first frame inside the repository, if any
    fr = re.search(r"(/repo/sim/[^\s:]+:\d+)", text[m.start():] if m else text)
    return msg[:200] + (f" @ {fr.group(1)}" if fr else "")


def merge(pid, stage):
    p = VERIF / "evidence" / f"{pid}.json"
    try:
        e = json.loads(p.read_text())
    except Exception:
        return
    e.setdefault("coverage", {})["sanitizer_stage"] = stage
    p.write_text(json.dumps(e, indent=2))


if __name__ == "__main__":
    sys.exit(main())
