#!/usr/bin/env python3
"""Prints the table of DESIGN.md section 8.1 from the evidence files of the last runs."""
import json, glob, os
rows=[]
for f in sorted(glob.glob(os.path.join(os.path.dirname(__file__),'..','evidence','C*.json'))):
    e=json.load(open(f)); c=e['coverage']
    obs=c.get('observed',{})
    top=sorted(obs.items(), key=lambda kv:-kv[1])[:4]
    seen=c.get('distinct_seen',{})
    seen_s=', '.join(f"{k}: {v.get('count') if isinstance(v,dict) else len(v)}" for k,v in list(seen.items())[:3])
    rows.append((e['property_id'], e['tier'], c.get('scenarios'), c['evaluations'], c['distinct_nontrivial'],
                 '; '.join(f"{k}={v:,}" for k,v in top)+(' | distinct '+seen_s if seen_s else ''), e['wall_s']))
print("| id | tier | scenarios | evaluations | distinct non-trivial | largest observation counters | wall s |")
print("|---|---|---|---|---|---|---|")
for r in rows:
    print(f"| {r[0]} | {r[1]} | {r[2]:,} | {r[3]:,} | {r[4]:,} | {r[5]} | {r[6]:.1f} |")
