#!/usr/bin/env python3
"""ThreadSanitizer stage: runs worker shards of one full-stack property's own workload (same generators, same
oracles, multi-thread tokio runtimes included) in a harness built with -Zsanitizer=thread and an instrumented std
(-Zbuild-std), and counts race reports.

  tools/tsan.py <ID> [--procs N] [--scenarios K] [--timeout S] [--seed X]

The repository has no `unsafe`, so a data race in repository code is impossible as the tree stands; the stage is
there for the change that introduces one (a `static mut` counter, an `UnsafeCell` cache shared between tasks, an
`unsafe impl Sync`), which the behavioural oracles only see when the race happens to corrupt a value they compare.

Verdict of the stage (three-valued, kept apart from the behavioural verdict of ./check):
  exit 0  every process finished, no ThreadSanitizer report, no oracle violation under the sanitizer
  exit 1  a report one of whose racing stacks contains a frame of the repository (a function of elvis_core:: or elvis::) or an oracle violation:
          prints  VIOLATION property=<ID> replay=<log file>
  exit 2  inconclusive: the sanitizer build failed, or processes timed out / died otherwise
Reports without any repository frame (tokio, std) are counted and shown in the evidence but are not violations of a
property of this repository.  The result is merged into evidence/<ID>.json under coverage.tsan_stage.
"""
import argparse, json, os, re, subprocess, sys, time, pathlib

VERIF = pathlib.Path(os.environ.get("VERIF_DIR", "/verif"))
H = VERIF / "harness"
TARGET = "x86_64-unknown-linux-gnu"


def main():
    ap = argparse.ArgumentParser()
    ap.add_argument("id")
    ap.add_argument("--procs", type=int, default=16)
    ap.add_argument("--scenarios", type=int, default=4, help="scenarios per process")
    ap.add_argument("--timeout", type=int, default=900)
    ap.add_argument("--seed", type=int, default=int(os.environ.get("VERIF_SEED", "1")))
    a = ap.parse_args()
    env = dict(os.environ)
    env["CARGO_NET_OFFLINE"] = "true"
    env["RUSTFLAGS"] = "-Zsanitizer=thread"
    feats = ["--features", "cs"] if a.id == "C18" else []
    tdir = "target-tsan"
    t0 = time.time()
    lock = ["flock", "-s", str(VERIF / ".repo.lock")] if not os.environ.get("VERIF_LOCK_HELD") else []
    b = subprocess.run(lock + ["cargo", "+nightly", "build", "--offline", "-Zbuild-std", "--target", TARGET, "--profile", "checked", "--target-dir", tdir] + feats,
                       cwd=H, env=env, capture_output=True, text=True)
    if b.returncode != 0:
        print(f"[{a.id}] tsan stage INCONCLUSIVE: sanitizer build failed\n" + b.stderr[-1500:], file=sys.stderr)
        merge(a.id, {"tool": "ThreadSanitizer", "verdict": "inconclusive", "reason": "build failed"})
        return 2
    build_s = time.time() - t0
    exe = H / tdir / TARGET / "checked" / "vcheck"
    known = set()
    try:
        for f in json.loads((VERIF / "known_findings.json").read_text())["findings"]:
            if f.get("property") == a.id and f.get("status") == "known":
                known.update([f["signature"]] if f.get("signature") else [])
                known.update(f.get("signatures", []))
    except Exception:
        pass
    logdir = VERIF / "replays" / a.id
    logdir.mkdir(parents=True, exist_ok=True)
    total = a.procs * a.scenarios
    renv = dict(os.environ)
    renv["RUST_BACKTRACE"] = "0"
    renv["VERIF_WORKER_BATCH"] = str(a.scenarios)
    procs = []
    for shard in range(a.procs):
        log = logdir / f"tsan-{a.seed}-{shard}.log"
        out = logdir / f"tsan-{a.seed}-{shard}.out"
        renv["TSAN_OPTIONS"] = "halt_on_error=0 exitcode=66 second_deadlock_stack=1"
        p = subprocess.Popen([str(exe), "worker", a.id, "quick", str(a.seed), str(shard), str(a.procs), str(total)],
                             cwd=H, env=renv, stdout=open(out, "w"), stderr=open(log, "w"))
        procs.append((shard, p, log, out))
    deadline = time.time() + a.timeout
    done = timed_out = 0
    evaluations = scenarios = 0
    observations = 0
    repo_reports, other_reports, oracle, other = {}, {}, {}, []
    for shard, p, log, out in procs:
        try:
            p.wait(timeout=max(1, deadline - time.time()))
        except subprocess.TimeoutExpired:
            p.kill()
            p.wait()
            timed_out += 1
        err = log.read_text(errors="replace")
        for line in out.read_text(errors="replace").splitlines():
            if line.startswith("E "):
                try:
                    d = json.loads(line.split(" ", 2)[2])
                except Exception:
                    continue
                scenarios += 1
                evaluations += d.get("n", 0)
                observations += sum(d.get("t", {}).values())
                for v in d.get("v", []):
                    sig = v.get("sig", "?")
                    if sig in known or sig.startswith("panic:src/"):
                        continue
                    oracle.setdefault(sig, str(out))
        blocks = re.split(r"(?m)^={18}$", err)
        for blk in blocks:
            if "WARNING: ThreadSanitizer" not in blk:
                continue
            kind = re.search(r"WARNING: ThreadSanitizer: ([^\n(]+)", blk).group(1).strip()
            # the racing accesses' stacks only (not the stacks that say where the threads were created); the build
            # carries no line tables, so a repository frame is recognised by its crate path: a frame whose function
            # itself (not a type parameter of a tokio/std frame) lives in elvis_core:: or elvis::
            m_end = re.search(r"(?m)^  (Thread T\d+|Location is|Mutex M\d+) ", blk)
            acc = blk[: m_end.start()] if m_end else blk
            fr = re.search(r"(?m)^\s+#\d+ (<?(?:elvis_core|elvis)::\S+)", acc)
            if fr:
                repo_reports.setdefault(f"{kind} @ {fr.group(1)[:120]}", str(log))
            else:
                top = re.search(r"#0 (\S+)", blk)
                other_reports.setdefault(f"{kind} @ {top.group(1) if top else '?'}", str(log))
        if p.returncode in (0, 66):
            done += 1
        elif p.returncode is not None and p.returncode != -9:
            m = re.search(r"panicked at ([^\n]+)", err)
            if m and "/repo/sim/" in m.group(1):
                oracle.setdefault("panic:" + m.group(1).strip().rstrip(":"), str(log))
                done += 1
            else:
                other.append(f"shard {shard}: exit {p.returncode}: {err.strip().splitlines()[-1][:200] if err.strip() else 'no output'}")
    keep = set(repo_reports.values()) | set(oracle.values()) | set(other_reports.values())
    for shard, p, log, out in procs:
        for f in (log, out):
            if f.exists() and str(f) not in keep:
                f.unlink()
    wall = time.time() - t0
    stage = {
        "tool": "ThreadSanitizer (rustc -Zsanitizer=thread, std rebuilt with -Zbuild-std, halt_on_error=0)",
        "workload": f"vcheck worker {a.id} quick: {a.procs} processes x {a.scenarios} scenarios of the property's own quick tier (same generators and oracles; multi-thread tokio runtimes where the property uses them)",
        "processes": a.procs, "processes_completed": done, "processes_timed_out": timed_out,
        "scenarios_under_tsan": scenarios, "evaluations_under_tsan": evaluations, "observations_under_tsan": observations,
        "race_reports_with_repository_frames": sorted(repo_reports), "reports_in_dependencies_only": sorted(other_reports),
        "oracle_violations_under_tsan": sorted(oracle), "unclassified_failures": other,
        "build_s": round(build_s, 1), "wall_s": round(wall, 1),
    }
    if repo_reports or oracle:
        stage["verdict"] = "violated"
        merge(a.id, stage)
        for sig, log in list(repo_reports.items()) + list(oracle.items()):
            print(f"VIOLATION property={a.id} replay={log}")
            print(f"  signature: tsan:{sig}")
        return 1
    if timed_out or other or scenarios == 0:
        stage["verdict"] = "inconclusive"
        merge(a.id, stage)
        print(f"[{a.id}] tsan stage INCONCLUSIVE: completed={done} timed_out={timed_out} scenarios={scenarios} unclassified={other}", file=sys.stderr)
        return 2
    stage["verdict"] = "held on what was observed"
    merge(a.id, stage)
    print(f"[{a.id}] tsan stage: {done}/{a.procs} processes, {scenarios} scenarios, {evaluations} evaluations, {observations} observations, "
          f"0 reports in repository code, {len(other_reports)} in dependencies only, wall={wall:.0f}s")
    return 0


def merge(pid, stage):
    p = VERIF / "evidence" / f"{pid}.json"
    try:
        e = json.loads(p.read_text())
    except Exception:
        return
    e.setdefault("coverage", {})["tsan_stage"] = stage
    p.write_text(json.dumps(e, indent=2))


if __name__ == "__main__":
    sys.exit(main())
