//! Framework shared by all property monitors: deterministic RNG, per-scenario
//! result deltas, worker protocol, evidence and known-findings handling.

pub mod driver;
pub mod model;
pub mod net;
pub mod props;
pub mod tcbsim;

use rand::{rngs::SmallRng, Rng, SeedableRng};
use serde_json::{json, Value};
use std::collections::BTreeMap;

#[derive(Debug, Clone, Copy, PartialEq, Eq)]
pub enum Tier {
    Quick,
    Thorough,
    /// workloads small enough for an interpreter (Miri): same generators and oracles, a handful of cases
    /// per scenario and sizes capped by `cap()`
    Tiny,
}

impl Tier {
    pub fn parse(s: &str) -> Option<Tier> {
        match s {
            "quick" => Some(Tier::Quick),
            "thorough" => Some(Tier::Thorough),
            "tiny" => Some(Tier::Tiny),
            _ => None,
        }
    }
    pub fn name(self) -> &'static str {
        match self {
            Tier::Quick => "quick",
            Tier::Thorough => "thorough",
            Tier::Tiny => "tiny",
        }
    }
    pub fn pick<T>(self, quick: T, thorough: T) -> T {
        match self {
            Tier::Quick | Tier::Tiny => quick,
            Tier::Thorough => thorough,
        }
    }
    pub fn pick3<T>(self, quick: T, thorough: T, tiny: T) -> T {
        match self {
            Tier::Quick => quick,
            Tier::Thorough => thorough,
            Tier::Tiny => tiny,
        }
    }
}

/// Upper bound on generated payload / write / datagram sizes; unlimited except in the tiny tier (set once by
/// the `miri` entry point before any scenario runs).
pub static SIZE_CAP: std::sync::atomic::AtomicUsize = std::sync::atomic::AtomicUsize::new(usize::MAX);
pub fn cap(n: usize) -> usize {
    n.min(SIZE_CAP.load(std::sync::atomic::Ordering::Relaxed))
}

/// FNV-1a, used for fingerprints and seed derivation (stable across runs)
pub fn fnv(bytes: &[u8]) -> u64 {
    let mut h: u64 = 0xcbf29ce484222325;
    for b in bytes {
        h ^= *b as u64;
        h = h.wrapping_mul(0x100000001b3);
    }
    h
}

pub fn fnv_str(s: &str) -> u64 {
    fnv(s.as_bytes())
}

pub fn mix(a: u64, b: u64) -> u64 {
    let mut x = a ^ b.wrapping_mul(0x9E3779B97F4A7C15);
    x ^= x >> 30;
    x = x.wrapping_mul(0xBF58476D1CE4E5B9);
    x ^= x >> 27;
    x = x.wrapping_mul(0x94D049BB133111EB);
    x ^= x >> 31;
    x
}

/// The RNG of scenario `k` of property `id` under `seed`
pub fn scenario_rng(id: &str, seed: u64, k: u64) -> SmallRng {
    SmallRng::seed_from_u64(mix(mix(seed, fnv_str(id)), k))
}

/// Convenience helpers on top of rand
pub trait RngExt: Rng {
    fn below(&mut self, n: u64) -> u64 {
        if n == 0 {
            0
        } else {
            self.gen_range(0..n)
        }
    }
    fn chance(&mut self, num: u32, den: u32) -> bool {
        self.gen_range(0..den) < num
    }
    fn pick<'a, T>(&mut self, xs: &'a [T]) -> &'a T {
        &xs[self.gen_range(0..xs.len())]
    }
    fn bytes(&mut self, n: usize) -> Vec<u8> {
        let mut v = vec![0u8; n];
        self.fill_bytes(&mut v);
        v
    }
    /// random bytes of a random length in lo..hi
    fn bytes_between(&mut self, lo: usize, hi: usize) -> Vec<u8> {
        let n = self.gen_range(lo..hi);
        self.bytes(n)
    }
    /// A u32 biased towards boundaries
    fn u32_biased(&mut self) -> u32 {
        match self.gen_range(0..10) {
            0 => 0,
            1 => 1,
            2 => u32::MAX,
            3 => u32::MAX - 1,
            4 => 1 << 31,
            5 => (1 << 31) - 1,
            6 => 1u32 << self.gen_range(0..32),
            _ => self.gen(),
        }
    }
    fn u16_biased(&mut self) -> u16 {
        match self.gen_range(0..8) {
            0 => 0,
            1 => 1,
            2 => u16::MAX,
            3 => u16::MAX - 1,
            4 => 1u16 << self.gen_range(0..16),
            _ => self.gen(),
        }
    }
    fn u8_biased(&mut self) -> u8 {
        match self.gen_range(0..8) {
            0 => 0,
            1 => 1,
            2 => u8::MAX,
            3 => 1u8 << self.gen_range(0..8),
            _ => self.gen(),
        }
    }
}
impl<T: Rng> RngExt for T {}

/// One violation as found by a monitor
#[derive(Debug, Clone)]
pub struct Violation {
    /// Deterministic classification of what failed; known findings are keyed on it
    pub signature: String,
    /// Human-readable explanation by the oracle
    pub what: String,
    /// The failing input / history
    pub witness: Value,
}

/// What one scenario (or one batch of cases) contributes to the run
#[derive(Debug, Default, Clone)]
pub struct Delta {
    /// cases executed
    pub evaluations: u64,
    /// fingerprints of the non-trivial cases among them
    pub fingerprints: Vec<u64>,
    /// named observation counters
    pub tallies: BTreeMap<String, u64>,
    /// named sets of observed things (states, edges, classes) by fingerprint string
    pub seen: BTreeMap<String, Vec<String>>,
    pub violations: Vec<Violation>,
    pub samples: Vec<Value>,
    /// cases whose outcome could not be decided (watchdog, hook not reached ...)
    pub inconclusive: u64,
}

impl Delta {
    pub fn tally(&mut self, name: &str, n: u64) {
        *self.tallies.entry(name.to_string()).or_insert(0) += n;
    }
    pub fn saw(&mut self, set: &str, item: impl Into<String>) {
        let v = self.seen.entry(set.to_string()).or_default();
        let item = item.into();
        if v.len() < 4096 && !v.contains(&item) {
            v.push(item);
        }
    }
    pub fn nontrivial(&mut self, fp: u64) {
        self.fingerprints.push(fp);
    }
    pub fn violation(&mut self, signature: impl Into<String>, what: impl Into<String>, witness: Value) {
        // keep at most a handful per signature per scenario
        let signature = signature.into();
        if self
            .violations
            .iter()
            .filter(|v| v.signature == signature)
            .count()
            >= 2
        {
            self.tally("violations_suppressed_same_signature", 1);
            return;
        }
        self.violations.push(Violation {
            signature,
            what: what.into(),
            witness,
        });
    }
    pub fn sample(&mut self, v: Value) {
        if self.samples.len() < 2 {
            self.samples.push(v);
        }
    }

    pub fn to_json(&self) -> Value {
        json!({
            "n": self.evaluations,
            "fp": self.fingerprints,
            "t": self.tallies,
            "seen": self.seen,
            "v": self.violations.iter().map(|v| json!({"sig": v.signature, "what": v.what, "w": v.witness})).collect::<Vec<_>>(),
            "s": self.samples,
            "inc": self.inconclusive,
        })
    }

    pub fn from_json(v: &Value) -> Delta {
        let mut d = Delta::default();
        d.evaluations = v["n"].as_u64().unwrap_or(0);
        d.fingerprints = v["fp"]
            .as_array()
            .map(|a| a.iter().filter_map(|x| x.as_u64()).collect())
            .unwrap_or_default();
        if let Some(t) = v["t"].as_object() {
            for (k, n) in t {
                d.tallies.insert(k.clone(), n.as_u64().unwrap_or(0));
            }
        }
        if let Some(t) = v["seen"].as_object() {
            for (k, items) in t {
                d.seen.insert(
                    k.clone(),
                    items
                        .as_array()
                        .map(|a| a.iter().filter_map(|x| x.as_str().map(String::from)).collect())
                        .unwrap_or_default(),
                );
            }
        }
        if let Some(vs) = v["v"].as_array() {
            for x in vs {
                d.violations.push(Violation {
                    signature: x["sig"].as_str().unwrap_or("?").to_string(),
                    what: x["what"].as_str().unwrap_or("").to_string(),
                    witness: x["w"].clone(),
                });
            }
        }
        d.samples = v["s"].as_array().cloned().unwrap_or_default();
        d.inconclusive = v["inc"].as_u64().unwrap_or(0);
        d
    }
}

/// Everything a scenario function needs to know
pub struct Env {
    pub tier: Tier,
    pub seed: u64,
    /// true when re-running a single scenario for a replay: print details
    pub verbose: bool,
}

/// Static description of one property check
pub struct PropDef {
    pub id: &'static str,
    /// evidence level category
    pub level: &'static str,
    /// number of scenarios (batches) per tier
    pub total: fn(Tier) -> u64,
    /// run scenario k
    pub run: fn(&Env, u64, &mut Delta),
    /// how cases are generated and what makes one non-trivial
    pub rule: &'static str,
    pub assumptions: &'static [&'static str],
    /// run scenarios in subprocess workers that may die (full-stack) —
    /// always true in practice, kept for documentation
    pub may_exit_process: bool,
    /// per-scenario wall-clock watchdog in seconds (firing = inconclusive)
    pub watchdog_s: u64,
    /// minimum number of distinct non-trivial cases below which the run is inconclusive
    pub nt_floor: fn(Tier) -> u64,
}

/// Run a closure, turning a panic into Err(message with location)
pub fn catch<T>(f: impl FnOnce() -> T) -> Result<T, String> {
    use std::panic::{catch_unwind, AssertUnwindSafe};
    if HOOK_DIRTY.swap(false, std::sync::atomic::Ordering::SeqCst) {
        install_quiet_panic_hook();
    }
    match catch_unwind(AssertUnwindSafe(f)) {
        Ok(v) => Ok(v),
        Err(e) => {
            let msg = if let Some(s) = e.downcast_ref::<&str>() {
                s.to_string()
            } else if let Some(s) = e.downcast_ref::<String>() {
                s.clone()
            } else {
                "non-string panic payload".to_string()
            };
            let loc = LAST_PANIC_LOCATION.with(|l| l.borrow().clone());
            Err(format!("{msg} @ {loc}"))
        }
    }
}

/// Set after `run_internet` ran in this process: it wraps the panic hook with
/// one that exits the process, so `catch` must re-install ours first.
pub static HOOK_DIRTY: std::sync::atomic::AtomicBool = std::sync::atomic::AtomicBool::new(false);
/// When set, the quiet hook prints "panicked at file:line:col:\nmessage" to
/// stderr (full-stack scenarios, where the panic is about to kill the worker).
pub static PRINT_PANICS: std::sync::atomic::AtomicBool = std::sync::atomic::AtomicBool::new(false);

thread_local! {
    pub static LAST_PANIC_LOCATION: std::cell::RefCell<String> = std::cell::RefCell::new(String::new());
}

/// Installs a quiet panic hook that records the location for `catch`.
pub fn install_quiet_panic_hook() {
    std::panic::set_hook(Box::new(|info| {
        let loc = info
            .location()
            .map(|l| format!("{}:{}", l.file(), l.line()))
            .unwrap_or_else(|| "?".to_string());
        if PRINT_PANICS.load(std::sync::atomic::Ordering::SeqCst) {
            let msg = if let Some(s) = info.payload().downcast_ref::<&str>() {
                s.to_string()
            } else if let Some(s) = info.payload().downcast_ref::<String>() {
                s.clone()
            } else {
                "non-string panic payload".to_string()
            };
            eprintln!("panicked at {loc}:0:\n{msg}");
        }
        LAST_PANIC_LOCATION.with(|l| *l.borrow_mut() = loc);
    }));
}

/// Reduce a panic location "…/sim/elvis-core/src/a/b.rs:123" to "a/b.rs:123"
pub fn short_loc(loc: &str) -> String {
    let loc = loc.trim();
    if let Some(i) = loc.find("/src/") {
        loc[i + 5..].to_string()
    } else {
        loc.to_string()
    }
}

/// From a `catch` error string "msg @ file:line" get ("msg", "file:line" shortened)
pub fn split_panic(err: &str) -> (String, String) {
    match err.rfind(" @ ") {
        Some(i) => (err[..i].to_string(), short_loc(&err[i + 3..])),
        None => (err.to_string(), "?".to_string()),
    }
}

/// file part of "a/b.rs:123"
pub fn loc_file(loc: &str) -> String {
    loc.split(':').next().unwrap_or("?").to_string()
}

pub fn hex(bytes: &[u8]) -> String {
    let mut s = String::with_capacity(bytes.len() * 2);
    for b in bytes.iter().take(256) {
        s.push_str(&format!("{b:02x}"));
    }
    if bytes.len() > 256 {
        s.push_str(&format!("...(+{} bytes)", bytes.len() - 256));
    }
    s
}

/// Records what the worker is about to do, so that the parent can attach it to
/// the witness if the process dies (the simulator's panic hook exits).
pub fn set_context(v: &Value) {
    let dir = driver::verif_dir().join("harness").join("target").join("scratch");
    let _ = std::fs::create_dir_all(&dir);
    let _ = std::fs::write(dir.join(format!("ctx-{}.json", std::process::id())), v.to_string());
}

pub fn take_context(pid: u32) -> Option<Value> {
    let p = driver::verif_dir().join("harness").join("target").join("scratch").join(format!("ctx-{pid}.json"));
    let t = std::fs::read_to_string(&p).ok()?;
    let _ = std::fs::remove_file(&p);
    serde_json::from_str(&t).ok()
}
