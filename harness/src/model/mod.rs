//! Small, independently written reference models used as oracles.
pub mod wire;
