//! Small, independently written reference models used as oracles.
