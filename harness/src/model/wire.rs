//! Hand-written RFC 791 / 768 / 9293 packers and the RFC 1071 checksum. Kept
//! deliberately independent of both elvis and etherparse; cross-checks them.

pub fn rfc1071(chunks: &[&[u8]]) -> u16 {
    // concatenate logically, pad odd total with a zero byte
    let mut sum: u32 = 0;
    let mut pending: Option<u8> = None;
    for c in chunks {
        for &b in *c {
            match pending.take() {
                None => pending = Some(b),
                Some(hi) => {
                    sum += u16::from_be_bytes([hi, b]) as u32;
                    if sum > 0xFFFF {
                        sum = (sum & 0xFFFF) + (sum >> 16);
                    }
                }
            }
        }
    }
    if let Some(hi) = pending {
        sum += u16::from_be_bytes([hi, 0]) as u32;
    }
    while sum > 0xFFFF {
        sum = (sum & 0xFFFF) + (sum >> 16);
    }
    !(sum as u16)
}

/// The folded one's-complement sum itself (not complemented)
pub fn ones_sum(chunks: &[&[u8]]) -> u16 {
    !rfc1071(chunks)
}

#[derive(Debug, Clone, Copy, PartialEq, Eq)]
pub struct Ip4 {
    pub tos: u8,
    pub total_length: u16,
    pub id: u16,
    pub df: bool,
    pub mf: bool,
    pub offset: u16,
    pub ttl: u8,
    pub protocol: u8,
    pub src: [u8; 4],
    pub dst: [u8; 4],
}

/// 20-byte header; `checksum` = None writes zero
pub fn pack_ipv4(h: &Ip4, with_checksum: bool) -> Vec<u8> {
    let mut b = vec![0x45, h.tos];
    b.extend_from_slice(&h.total_length.to_be_bytes());
    b.extend_from_slice(&h.id.to_be_bytes());
    let ff = ((h.df as u16) << 14) | ((h.mf as u16) << 13) | (h.offset & 0x1fff);
    b.extend_from_slice(&ff.to_be_bytes());
    b.push(h.ttl);
    b.push(h.protocol);
    b.extend_from_slice(&[0, 0]);
    b.extend_from_slice(&h.src);
    b.extend_from_slice(&h.dst);
    if with_checksum {
        let c = rfc1071(&[&b]);
        b[10..12].copy_from_slice(&c.to_be_bytes());
    }
    b
}

pub fn pseudo(src: [u8; 4], dst: [u8; 4], proto: u8, len: u16) -> Vec<u8> {
    let mut p = vec![];
    p.extend_from_slice(&src);
    p.extend_from_slice(&dst);
    p.push(0);
    p.push(proto);
    p.extend_from_slice(&len.to_be_bytes());
    p
}

pub fn pack_udp(src: [u8; 4], sp: u16, dst: [u8; 4], dp: u16, payload: &[u8], with_checksum: bool) -> Vec<u8> {
    let len = (8 + payload.len()) as u16;
    let mut b = vec![];
    b.extend_from_slice(&sp.to_be_bytes());
    b.extend_from_slice(&dp.to_be_bytes());
    b.extend_from_slice(&len.to_be_bytes());
    b.extend_from_slice(&[0, 0]);
    if with_checksum {
        let mut c = rfc1071(&[&pseudo(src, dst, 17, len), &b, payload]);
        if c == 0 {
            c = 0xFFFF; // RFC 768: an all-zero computed checksum is transmitted as all ones
        }
        b[6..8].copy_from_slice(&c.to_be_bytes());
    }
    b
}

#[derive(Debug, Clone, Copy, PartialEq, Eq)]
pub struct Tcp {
    pub sp: u16,
    pub dp: u16,
    pub seq: u32,
    pub ack: u32,
    pub flags: u8, // low 6 bits
    pub wnd: u16,
    pub urg: u16,
}

pub fn pack_tcp(src: [u8; 4], dst: [u8; 4], t: &Tcp, payload: &[u8], with_checksum: bool) -> Vec<u8> {
    let mut b = vec![];
    b.extend_from_slice(&t.sp.to_be_bytes());
    b.extend_from_slice(&t.dp.to_be_bytes());
    b.extend_from_slice(&t.seq.to_be_bytes());
    b.extend_from_slice(&t.ack.to_be_bytes());
    b.push(5 << 4);
    b.push(t.flags & 0x3f);
    b.extend_from_slice(&t.wnd.to_be_bytes());
    b.extend_from_slice(&[0, 0]);
    b.extend_from_slice(&t.urg.to_be_bytes());
    if with_checksum {
        let c = rfc1071(&[&pseudo(src, dst, 6, (20 + payload.len()) as u16), &b, payload]);
        b[16..18].copy_from_slice(&c.to_be_bytes());
    }
    b
}
