//! Building blocks for full-stack scenarios: runtimes with virtual time, a
//! frame recorder / fault plan on the H4 hook, and scriptable applications
//! that record everything delivered to them.

use async_trait::async_trait;
use elvis_core::{
    machine::Machine,
    message::Message,
    network::{
        verif::{FrameHook, FrameInfo, Verdict},
        Mac,
    },
    protocol::{DemuxError, StartError},
    protocols::{
        ipv4::ipv4_parsing::Ipv4Header, pci, udp::UdpHeader, Arp, Endpoints, Ipv4,
    },
    Control, Protocol, Session, Shutdown,
};
use std::{
    any::TypeId,
    future::Future,
    pin::Pin,
    sync::{
        atomic::{AtomicU64, Ordering},
        Arc, Mutex,
    },
    time::Duration,
};
use tokio::sync::Barrier;

/// Process-wide logical clock: every recorded event takes a stamp, so that
/// events recorded by different monitors can be ordered (SeqCst).
pub static STAMP: AtomicU64 = AtomicU64::new(1);
pub fn stamp() -> u64 {
    STAMP.fetch_add(1, Ordering::SeqCst)
}

/// Run a future on a current-thread runtime whose clock is paused: all
/// `tokio::time` delays elapse in exact virtual time.
pub fn run_paused<F: Future>(f: F) -> F::Output {
    crate::PRINT_PANICS.store(true, Ordering::SeqCst);
    let rt = tokio::runtime::Builder::new_current_thread()
        .enable_time()
        .start_paused(true)
        .build()
        .expect("runtime");
    let out = rt.block_on(f);
    crate::PRINT_PANICS.store(false, Ordering::SeqCst);
    crate::install_quiet_panic_hook();
    drop(rt);
    out
}

/// Run a future on a multi-thread runtime with `workers` threads (real clock).
pub fn run_multi<F: Future>(workers: usize, f: F) -> F::Output {
    crate::PRINT_PANICS.store(true, Ordering::SeqCst);
    let rt = tokio::runtime::Builder::new_multi_thread()
        .worker_threads(workers)
        .enable_time()
        .build()
        .expect("runtime");
    let out = rt.block_on(f);
    // Tearing the runtime down cancels the machines' tasks while other workers may still be polling their
    // parents; the resulting JoinError panics are an artefact of the teardown, not of the run, so the
    // simulator's exit-on-panic hook is replaced first.
    crate::PRINT_PANICS.store(false, Ordering::SeqCst);
    crate::install_quiet_panic_hook();
    rt.shutdown_timeout(Duration::from_millis(200));
    out
}

#[derive(Debug, Clone, Copy, PartialEq, Eq, Hash)]
pub enum Kind {
    Ipv4,
    Arp,
    Other,
}

pub fn kind_of(t: TypeId) -> Kind {
    if t == TypeId::of::<Ipv4>() {
        Kind::Ipv4
    } else if t == TypeId::of::<Arp>() {
        Kind::Arp
    } else {
        Kind::Other
    }
}

#[derive(Debug, Clone)]
pub struct FrameRec {
    pub stamp: u64,
    pub seq_no: u64,
    pub net_id: u64,
    pub sender: Mac,
    pub destination: Option<Mac>,
    pub kind: Kind,
    pub protocol: TypeId,
    pub bytes: Vec<u8>,
    /// virtual (or real) time since the recorder was created
    pub t_send: Duration,
    pub dropped: bool,
    pub copies: u32,
    pub extra_delay: Duration,
    /// (tap, time, stamp) of every hand-over to a tap
    pub deliveries: Vec<(Mac, Duration, u64)>,
}

pub type Decide = Box<dyn FnMut(&FrameRec) -> Verdict + Send>;

/// Records every frame of the networks it is installed on and applies a fault plan.
pub struct Recorder {
    pub start: tokio::time::Instant,
    pub frames: Mutex<Vec<FrameRec>>,
    decide: Mutex<Decide>,
}

impl Recorder {
    pub fn new(decide: Decide) -> Arc<Recorder> {
        Arc::new(Recorder {
            start: tokio::time::Instant::now(),
            frames: Mutex::new(vec![]),
            decide: Mutex::new(decide),
        })
    }
    pub fn passive() -> Arc<Recorder> {
        Self::new(Box::new(|_| Verdict::PASS))
    }
    pub fn now(&self) -> Duration {
        tokio::time::Instant::now().duration_since(self.start)
    }
    pub fn snapshot(&self) -> Vec<FrameRec> {
        self.frames.lock().unwrap().clone()
    }
    pub fn count(&self) -> usize {
        self.frames.lock().unwrap().len()
    }
}

impl FrameHook for Recorder {
    fn on_send(&self, f: &FrameInfo) -> Verdict {
        let mut rec = FrameRec {
            stamp: stamp(),
            seq_no: f.seq_no,
            net_id: f.net_id,
            sender: f.sender,
            destination: f.destination,
            kind: kind_of(f.protocol),
            protocol: f.protocol,
            bytes: f.message.to_vec(),
            t_send: self.now(),
            dropped: false,
            copies: 1,
            extra_delay: Duration::ZERO,
            deliveries: vec![],
        };
        let v = (self.decide.lock().unwrap())(&rec);
        match v {
            Verdict::Drop => rec.dropped = true,
            Verdict::Deliver { extra_delay, copies } => {
                rec.copies = copies;
                rec.extra_delay = extra_delay;
                if copies == 0 {
                    rec.dropped = true;
                }
            }
        }
        self.frames.lock().unwrap().push(rec);
        v
    }

    fn on_deliver(&self, f: &FrameInfo, tap: Mac) {
        let now = self.now();
        let st = stamp();
        let mut frames = self.frames.lock().unwrap();
        if let Some(r) = frames.iter_mut().rev().find(|r| r.seq_no == f.seq_no) {
            r.deliveries.push((tap, now, st));
        }
    }
}

// ---------------------------------------------------------------------------
// Scriptable recording applications. `App<N>` are distinct Rust types for
// distinct N so that several can live on one machine.

#[derive(Debug, Clone)]
pub struct DemuxEvent {
    pub stamp: u64,
    pub time: Duration,
    pub app: usize,
    pub machine: usize,
    pub payload: Vec<u8>,
    pub ipv4: Option<Ipv4Header>,
    pub udp: Option<UdpHeader>,
    pub pci: Option<pci::DemuxInfo>,
    pub endpoints: Option<Endpoints>,
}

pub type Log = Arc<Mutex<Vec<DemuxEvent>>>;

pub type BoxFut = Pin<Box<dyn Future<Output = ()> + Send>>;
/// Runs synchronously inside start(), before the barrier (bind, listen …). Gets (machine, own TypeId).
pub type SetupFn = Box<dyn FnOnce(Arc<Machine>, TypeId) -> BoxFut + Send>;
/// Runs after the barrier. Gets (machine, own TypeId, shutdown).
pub type BodyFn = Box<dyn FnOnce(Arc<Machine>, TypeId, Shutdown) -> BoxFut + Send>;
pub type OnDemux = Box<dyn Fn(&DemuxEvent, Arc<dyn Session>, Arc<Machine>) + Send + Sync>;

pub struct App<const N: usize> {
    pub machine_index: usize,
    pub log: Log,
    pub t0: tokio::time::Instant,
    setup: Mutex<Option<SetupFn>>,
    body: Mutex<Option<BodyFn>>,
    on_demux: Option<OnDemux>,
    /// stamps of (arrival at the barrier, release from the barrier)
    pub barrier_stamps: Arc<Mutex<Vec<(u64, u64)>>>,
}

impl<const N: usize> App<N> {
    pub fn new(machine_index: usize, log: Log) -> Self {
        App {
            machine_index,
            log,
            t0: tokio::time::Instant::now(),
            setup: Mutex::new(None),
            body: Mutex::new(None),
            on_demux: None,
            barrier_stamps: Arc::new(Mutex::new(vec![])),
        }
    }
    pub fn setup(self, f: SetupFn) -> Self {
        *self.setup.lock().unwrap() = Some(f);
        self
    }
    pub fn body(self, f: BodyFn) -> Self {
        *self.body.lock().unwrap() = Some(f);
        self
    }
    pub fn on_demux(mut self, f: OnDemux) -> Self {
        self.on_demux = Some(f);
        self
    }
    pub fn with_t0(mut self, t0: tokio::time::Instant) -> Self {
        self.t0 = t0;
        self
    }
    pub fn with_barrier_stamps(mut self, b: Arc<Mutex<Vec<(u64, u64)>>>) -> Self {
        self.barrier_stamps = b;
        self
    }
}

#[async_trait]
impl<const N: usize> Protocol for App<N> {
    async fn start(&self, shutdown: Shutdown, initialized: Arc<Barrier>, machine: Arc<Machine>) -> Result<(), StartError> {
        let setup = self.setup.lock().unwrap().take();
        if let Some(f) = setup {
            f(machine.clone(), self.id()).await;
        }
        let arrive = stamp();
        initialized.wait().await;
        let release = stamp();
        self.barrier_stamps.lock().unwrap().push((arrive, release));
        let body = self.body.lock().unwrap().take();
        if let Some(f) = body {
            f(machine, self.id(), shutdown).await;
        }
        Ok(())
    }

    fn demux(&self, message: Message, caller: Arc<dyn Session>, control: Control, machine: Arc<Machine>) -> Result<(), DemuxError> {
        let ev = DemuxEvent {
            stamp: stamp(),
            time: tokio::time::Instant::now().duration_since(self.t0),
            app: N,
            machine: self.machine_index,
            payload: message.to_vec(),
            ipv4: control.get::<Ipv4Header>().copied(),
            udp: control.get::<UdpHeader>().copied(),
            pci: control.get::<pci::DemuxInfo>().copied(),
            endpoints: control.get::<Endpoints>().copied(),
        };
        if let Some(f) = &self.on_demux {
            f(&ev, caller, machine);
        }
        self.log.lock().unwrap().push(ev);
        Ok(())
    }
}

/// Adds `App<N>` for a runtime-chosen N in 0..8 to a machine.
pub fn with_app(m: Machine, n: usize, build: impl FnOnce() -> AppParts) -> Machine {
    let p = build();
    macro_rules! mk {
        ($k:literal) => {{
            let mut a = App::<$k>::new(p.machine_index, p.log).with_t0(p.t0).with_barrier_stamps(p.barrier_stamps);
            if let Some(s) = p.setup {
                a = a.setup(s);
            }
            if let Some(b) = p.body {
                a = a.body(b);
            }
            if let Some(d) = p.on_demux {
                a = a.on_demux(d);
            }
            m.with(a)
        }};
    }
    match n {
        0 => mk!(0),
        1 => mk!(1),
        2 => mk!(2),
        3 => mk!(3),
        4 => mk!(4),
        5 => mk!(5),
        6 => mk!(6),
        _ => mk!(7),
    }
}

pub fn app_type_id(n: usize) -> TypeId {
    match n {
        0 => TypeId::of::<App<0>>(),
        1 => TypeId::of::<App<1>>(),
        2 => TypeId::of::<App<2>>(),
        3 => TypeId::of::<App<3>>(),
        4 => TypeId::of::<App<4>>(),
        5 => TypeId::of::<App<5>>(),
        6 => TypeId::of::<App<6>>(),
        _ => TypeId::of::<App<7>>(),
    }
}

pub struct AppParts {
    pub machine_index: usize,
    pub log: Log,
    pub t0: tokio::time::Instant,
    pub setup: Option<SetupFn>,
    pub body: Option<BodyFn>,
    pub on_demux: Option<OnDemux>,
    pub barrier_stamps: Arc<Mutex<Vec<(u64, u64)>>>,
}

impl AppParts {
    pub fn new(machine_index: usize, log: Log, t0: tokio::time::Instant) -> Self {
        AppParts {
            machine_index,
            log,
            t0,
            setup: None,
            body: None,
            on_demux: None,
            barrier_stamps: Arc::new(Mutex::new(vec![])),
        }
    }
}

pub fn ms(n: u64) -> Duration {
    Duration::from_millis(n)
}
