//! Scenario builder for full-stack properties (filled in later).
