//! Parent-side orchestration: shards scenarios over worker subprocesses,
//! attributes abnormal exits to the open scenario, merges deltas, applies the
//! known-findings file and writes evidence + replay files.

use crate::{Delta, Env, PropDef, Tier, Violation};
use serde_json::{json, Value};
use std::{
    collections::{BTreeMap, BTreeSet, HashSet},
    io::{BufRead, BufReader, Read, Write},
    path::PathBuf,
    process::{Command, Stdio},
    sync::mpsc,
    time::{Duration, Instant},
};

pub fn verif_dir() -> PathBuf {
    std::env::var("VERIF_DIR")
        .map(PathBuf::from)
        .unwrap_or_else(|_| PathBuf::from("/verif"))
}

/// Worker side: run scenarios start, start+stride, ... < total and print one
/// `B k` / `E k json` pair per scenario.
pub fn worker_main(def: &PropDef, tier: Tier, seed: u64, start: u64, stride: u64, total: u64) {
    crate::install_quiet_panic_hook();
    let env = Env {
        tier,
        seed,
        verbose: false,
    };
    let stdout = std::io::stdout();
    let mut k = start;
    // A simulated internet does not give all of its memory back when a run ends (machines and their tasks
    // reference each other), so a worker process retires after a batch of scenarios; the shard driver starts a
    // fresh one where this one stopped.
    let batch: u64 = std::env::var("VERIF_WORKER_BATCH").ok().and_then(|s| s.parse().ok()).unwrap_or(64);
    let mut done_here = 0u64;
    while k < total && done_here < batch {
        done_here += 1;
        {
            let mut o = stdout.lock();
            writeln!(o, "B {k}").unwrap();
            o.flush().unwrap();
        }
        let mut delta = Delta::default();
        (def.run)(&env, k, &mut delta);
        if k < 2 && delta.samples.is_empty() {
            // the scenario ended before its own sample point (a violation or an early exit): still show
            // the reader which case this was and what it counted
            delta.samples.push(serde_json::json!({
                "scenario_index": k, "seed": seed,
                "note": "scenario ended before its sample point; it is reproducible from (property, seed, scenario_index)",
                "evaluations": delta.evaluations, "violations_in_scenario": delta.violations.len(),
                "tallies": delta.tallies,
            }));
        }
        {
            let mut o = stdout.lock();
            writeln!(o, "E {k} {}", delta.to_json()).unwrap();
            o.flush().unwrap();
        }
        k += stride;
    }
}

/// In-process run of `count` scenarios of the tiny tier (indices shard, shard+nshards, ...): the workload that is
/// executed under an interpreter / sanitizer. Prints one summary line; exit 0 silent, 1 oracle violation.
pub fn tiny_main(def: &PropDef, seed: u64, shard: u64, nshards: u64, count: u64) -> i32 {
    crate::install_quiet_panic_hook();
    crate::SIZE_CAP.store(600, std::sync::atomic::Ordering::Relaxed);
    let env = Env { tier: Tier::Tiny, seed, verbose: false };
    let total = (def.total)(Tier::Tiny);
    let mut merged = Delta::default();
    let mut ran = 0u64;
    for i in 0..count {
        let k = (shard + i * nshards.max(1)) % total.max(1);
        let mut d = Delta::default();
        (def.run)(&env, k, &mut d);
        ran += 1;
        merged.evaluations += d.evaluations;
        merged.fingerprints.extend(d.fingerprints);
        for (t, n) in d.tallies {
            *merged.tallies.entry(t).or_insert(0) += n;
        }
        merged.violations.extend(d.violations);
    }
    let known = load_known();
    let mut sigs: BTreeSet<String> = BTreeSet::new();
    for v in &merged.violations {
        let is_known = known.iter().any(|k| k.property == def.id && k.status == "known" && k.signatures.iter().any(|s| *s == v.signature));
        if !is_known && !is_harness_panic(&v.signature) {
            sigs.insert(v.signature.clone());
        }
    }
    let ops: u64 = merged.tallies.values().sum();
    println!(
        "TINY-DONE id={} seed={} shard={} scenarios={} evaluations={} nontrivial={} tallied_observations={} new_violation_signatures={:?}",
        def.id, seed, shard, ran, merged.evaluations, merged.fingerprints.len(), ops, sigs
    );
    if sigs.is_empty() { 0 } else { 1 }
}

enum Msg {
    Delta(Delta),
    Crash { k: u64, stderr: String, code: Option<i32>, context: Option<Value> },
    Watchdog { k: u64 },
    Done,
}

fn run_shard(
    exe: PathBuf,
    def_id: &'static str,
    tier: Tier,
    seed: u64,
    shard: u64,
    stride: u64,
    total: u64,
    watchdog: Duration,
    tx: mpsc::Sender<Msg>,
) {
    let mut next = shard;
    while next < total {
        let mut child = Command::new(&exe)
            .args([
                "worker",
                def_id,
                tier.name(),
                &seed.to_string(),
                &next.to_string(),
                &stride.to_string(),
                &total.to_string(),
            ])
            .stdin(Stdio::null())
            .stdout(Stdio::piped())
            .stderr(Stdio::piped())
            .env("RUST_BACKTRACE", "0")
            .spawn()
            .expect("spawn worker");
        let child_pid = child.id();
        let stdout = child.stdout.take().unwrap();
        let mut stderr = child.stderr.take().unwrap();
        // stderr collector (bounded)
        let err_handle = std::thread::spawn(move || {
            let mut buf = Vec::new();
            let mut chunk = [0u8; 8192];
            loop {
                match stderr.read(&mut chunk) {
                    Ok(0) | Err(_) => break,
                    Ok(n) => {
                        buf.extend_from_slice(&chunk[..n]);
                        if buf.len() > 64 * 1024 {
                            // keep the head (first panic message) and the tail
                            let cut = buf.len() - 16 * 1024;
                            buf.drain(32 * 1024..cut);
                        }
                    }
                }
            }
            String::from_utf8_lossy(&buf).to_string()
        });
        // line reader thread so that we can apply a watchdog
        let (ltx, lrx) = mpsc::channel::<String>();
        let reader = std::thread::spawn(move || {
            let r = BufReader::new(stdout);
            for line in r.lines() {
                match line {
                    Ok(l) => {
                        if ltx.send(l).is_err() {
                            break;
                        }
                    }
                    Err(_) => break,
                }
            }
        });
        let mut open: Option<u64> = None;
        let mut last_done: Option<u64> = None;
        let mut watchdog_fired = false;
        loop {
            match lrx.recv_timeout(watchdog) {
                Ok(line) => {
                    if let Some(rest) = line.strip_prefix("B ") {
                        open = rest.trim().parse().ok();
                    } else if let Some(rest) = line.strip_prefix("E ") {
                        let mut it = rest.splitn(2, ' ');
                        let k: u64 = it.next().unwrap_or("0").parse().unwrap_or(0);
                        let js = it.next().unwrap_or("{}");
                        if let Ok(v) = serde_json::from_str::<Value>(js) {
                            let _ = tx.send(Msg::Delta(Delta::from_json(&v)));
                        }
                        last_done = Some(k);
                        open = None;
                    }
                    // anything else is chatter from the code under test (println!)
                }
                Err(mpsc::RecvTimeoutError::Timeout) => {
                    watchdog_fired = true;
                    let _ = child.kill();
                    break;
                }
                Err(mpsc::RecvTimeoutError::Disconnected) => break,
            }
        }
        let status = child.wait().ok();
        let context = crate::take_context(child_pid);
        let _ = reader.join();
        let stderr_text = err_handle.join().unwrap_or_default();
        let finished_all = match last_done {
            Some(k) => k + stride >= total && open.is_none(),
            None => false,
        };
        if finished_all && status.map(|s| s.success()).unwrap_or(false) {
            break;
        }
        // abnormal: attribute to the open scenario
        let k = match open {
            Some(k) => k,
            None => match last_done {
                // died between scenarios: nothing to attribute, continue after it
                Some(k) => {
                    // (a worker that retired after its batch ends up here as well)
                    next = k + stride;
                    continue;
                }
                None => next,
            },
        };
        if watchdog_fired {
            let _ = tx.send(Msg::Watchdog { k });
        } else {
            let _ = tx.send(Msg::Crash {
                k,
                stderr: stderr_text,
                code: status.and_then(|s| s.code()),
                context,
            });
        }
        next = k + stride;
    }
    let _ = tx.send(Msg::Done);
}

/// Known findings file entry
#[derive(Debug, Clone)]
pub struct Known {
    pub property: String,
    /// first (or only) signature
    pub signature: String,
    /// all signatures this entry covers
    pub signatures: Vec<String>,
    pub status: String,
    pub what: String,
}

pub fn load_known() -> Vec<Known> {
    let p = verif_dir().join("known_findings.json");
    let text = match std::fs::read_to_string(&p) {
        Ok(t) => t,
        Err(_) => return vec![],
    };
    let v: Value = serde_json::from_str(&text).expect("known_findings.json must be valid JSON");
    v["findings"]
        .as_array()
        .cloned()
        .unwrap_or_default()
        .iter()
        .map(|e| {
            let mut sigs: Vec<String> = e["signatures"]
                .as_array()
                .map(|a| a.iter().filter_map(|x| x.as_str().map(String::from)).collect())
                .unwrap_or_default();
            if let Some(s) = e["signature"].as_str() {
                sigs.insert(0, s.to_string());
            }
            (e, sigs)
        })
        .map(|(e, sigs)| Known {
            property: e["property"].as_str().unwrap_or("").to_string(),
            signature: sigs.first().cloned().unwrap_or_default(),
            signatures: sigs,
            status: e["status"].as_str().unwrap_or("").to_string(),
            what: e["what"].as_str().unwrap_or("").to_string(),
        })
        .collect()
}

/// Extract "file:line" and message of the first panic in a worker's stderr
pub fn parse_panic(stderr: &str) -> Option<(String, String)> {
    // format: thread '...' (id) panicked at path:line:col:\nmessage
    let idx = stderr.find("panicked at ")?;
    let rest = &stderr[idx + "panicked at ".len()..];
    let line_end = rest.find('\n').unwrap_or(rest.len());
    let loc_raw = rest[..line_end].trim().trim_end_matches(':');
    // strip column
    let mut parts: Vec<&str> = loc_raw.rsplitn(3, ':').collect();
    parts.reverse();
    let loc = if parts.len() == 3 {
        format!("{}:{}", parts[0], parts[1])
    } else {
        loc_raw.to_string()
    };
    let msg = rest[line_end..]
        .lines()
        .find(|l| !l.trim().is_empty())
        .unwrap_or("")
        .trim()
        .to_string();
    Some((crate::short_loc(&loc), msg))
}

pub struct RunOutcome {
    pub exit_code: i32,
}

/// Parent side: run the whole check and write evidence.
pub fn run_check(def: &'static PropDef, tier: Tier, seed: u64) -> RunOutcome {
    let t0 = Instant::now();
    let total = (def.total)(tier);
    let nshards: u64 = std::env::var("VERIF_JOBS")
        .ok()
        .and_then(|s| s.parse().ok())
        .unwrap_or(16)
        .min(total.max(1));
    let exe = std::env::current_exe().expect("current_exe");
    let (tx, rx) = mpsc::channel();
    let mut handles = vec![];
    for shard in 0..nshards {
        let tx = tx.clone();
        let exe = exe.clone();
        let id = def.id;
        let wd = Duration::from_secs(def.watchdog_s);
        handles.push(std::thread::spawn(move || {
            run_shard(exe, id, tier, seed, shard, nshards, total, wd, tx)
        }));
    }
    drop(tx);

    let mut merged = Delta::default();
    let mut fps: HashSet<u64> = HashSet::new();
    let mut seen: BTreeMap<String, BTreeSet<String>> = BTreeMap::new();
    let mut crashes = 0u64;
    let mut harness_errors = 0u64;
    let mut done = 0;
    while done < nshards {
        match rx.recv() {
            Ok(Msg::Delta(d)) => {
                merged.evaluations += d.evaluations;
                merged.inconclusive += d.inconclusive;
                for f in d.fingerprints {
                    fps.insert(f);
                }
                for (k, n) in d.tallies {
                    *merged.tallies.entry(k).or_insert(0) += n;
                }
                for (k, items) in d.seen {
                    let s = seen.entry(k).or_default();
                    for i in items {
                        s.insert(i);
                    }
                }
                for v in d.violations {
                    if is_harness_panic(&v.signature) {
                        harness_errors += 1;
                        eprintln!("[{}] HARNESS ERROR (a panic inside /verif's own code, not a verdict about the property): {} - {}", def.id, v.signature, v.what);
                        continue;
                    }
                    merged.violations.push(v);
                }
                for s in d.samples {
                    if merged.samples.len() < 5 {
                        merged.samples.push(s);
                    }
                }
            }
            Ok(Msg::Crash { k, stderr, code, context }) => {
                crashes += 1;
                merged.evaluations += 1;
                let (sig, what) = match parse_panic(&stderr) {
                    Some((loc, msg)) => (
                        format!("panic:{}", loc),
                        format!("process-fatal panic at {loc}: {msg}"),
                    ),
                    None => {
                        // not a panic: OOM kill, abort … → harness-level inconclusive
                        merged.inconclusive += 1;
                        merged.tally("worker_abnormal_exit_without_panic", 1);
                        eprintln!(
                            "[{}] worker died without a panic message in scenario {k} (code {code:?}); counted inconclusive. stderr tail: {}",
                            def.id,
                            stderr.chars().rev().take(400).collect::<String>().chars().rev().collect::<String>()
                        );
                        continue;
                    }
                };
                let tail: String = stderr.lines().take(6).collect::<Vec<_>>().join("\n");
                if is_harness_panic(&sig) {
                    harness_errors += 1;
                    eprintln!("[{}] HARNESS ERROR (a panic inside /verif's own code, not a verdict about the property) in scenario {k}: {what}", def.id);
                    continue;
                }
                merged.violations.push(Violation {
                    signature: sig,
                    what,
                    witness: json!({"scenario": k, "exit_code": code, "stderr_head": tail, "what_the_worker_was_running": context}),
                });
            }
            Ok(Msg::Watchdog { k }) => {
                merged.evaluations += 1;
                merged.inconclusive += 1;
                merged.tally("watchdog_fired", 1);
                eprintln!("[{}] watchdog fired in scenario {k}: inconclusive", def.id);
            }
            Ok(Msg::Done) => done += 1,
            Err(_) => break,
        }
    }
    for h in handles {
        let _ = h.join();
    }

    // classify violations
    let known = load_known();
    let mut printed_known: BTreeSet<String> = BTreeSet::new();
    let mut new_sigs: BTreeMap<String, (Violation, u64)> = BTreeMap::new();
    let mut known_hits: BTreeMap<String, u64> = BTreeMap::new();
    for v in &merged.violations {
        let hit = known
            .iter()
            .find(|k| k.property == def.id && k.status == "known" && k.signatures.iter().any(|s| *s == v.signature));
        match hit {
            Some(k) => {
                *known_hits.entry(k.signature.clone()).or_insert(0) += 1;
                if printed_known.insert(k.signature.clone()) {
                    println!(
                        "KNOWN-FINDING: property={} signature={} {}",
                        def.id, k.signature, k.what
                    );
                }
            }
            None => {
                let e = new_sigs
                    .entry(v.signature.clone())
                    .or_insert_with(|| (v.clone(), 0));
                e.1 += 1;
            }
        }
    }
    let replay_dir = verif_dir().join("replays").join(def.id);
    let _ = std::fs::create_dir_all(&replay_dir);
    let mut violation_count = 0;
    for (sig, (v, n)) in &new_sigs {
        violation_count += 1;
        let name = format!("{:016x}.json", crate::fnv_str(sig));
        let path = replay_dir.join(name);
        let body = json!({
            "property": def.id,
            "tier": tier.name(),
            "seed": seed,
            "signature": sig,
            "occurrences": n,
            "what": v.what,
            "witness": v.witness,
        });
        let _ = std::fs::write(&path, serde_json::to_string_pretty(&body).unwrap());
        println!("VIOLATION property={} replay={}", def.id, path.display());
        println!("  signature: {sig}  ({n} occurrence(s))");
        println!("  {}", v.what);
    }

    let distinct_nontrivial = fps.len() as u64;
    let wall = t0.elapsed().as_secs_f64();
    let mut coverage = serde_json::Map::new();
    coverage.insert("evaluations".into(), json!(merged.evaluations));
    coverage.insert("distinct_nontrivial".into(), json!(distinct_nontrivial));
    coverage.insert("rule".into(), json!(def.rule));
    coverage.insert("samples".into(), json!(merged.samples));
    coverage.insert("scenarios".into(), json!(total));
    coverage.insert("inconclusive".into(), json!(merged.inconclusive));
    coverage.insert("worker_crashes".into(), json!(crashes));
    coverage.insert("observed".into(), json!(merged.tallies));
    let mut seen_json = serde_json::Map::new();
    for (k, s) in &seen {
        seen_json.insert(
            k.clone(),
            json!({"count": s.len(), "items": s.iter().take(200).collect::<Vec<_>>()}),
        );
    }
    coverage.insert("distinct_seen".into(), Value::Object(seen_json));
    coverage.insert("known_findings_hit".into(), json!(known_hits));
    coverage.insert(
        "new_violation_signatures".into(),
        json!(new_sigs.keys().collect::<Vec<_>>()),
    );
    let evidence = json!({
        "property_id": def.id,
        "tier": tier.name(),
        "seed": seed,
        "level": def.level,
        "coverage": Value::Object(coverage),
        "assumptions": def.assumptions,
        "wall_s": wall,
        "violations": violation_count,
    });
    let evdir = verif_dir().join("evidence");
    let _ = std::fs::create_dir_all(&evdir);
    let evpath = evdir.join(format!("{}.json", def.id));
    std::fs::write(&evpath, serde_json::to_string_pretty(&evidence).unwrap())
        .expect("write evidence");

    println!(
        "[{}] {} seed={} scenarios={} evaluations={} distinct_nontrivial={} inconclusive={} known_hits={} new_violations={} wall={:.1}s",
        def.id,
        tier.name(),
        seed,
        total,
        merged.evaluations,
        distinct_nontrivial,
        merged.inconclusive,
        known_hits.values().sum::<u64>(),
        violation_count,
        wall
    );
    for (k, n) in &merged.tallies {
        println!("    {k} = {n}");
    }
    for (k, s) in &seen {
        println!("    distinct {k}: {}", s.len());
    }

    let exit_code = if violation_count > 0 {
        1
    } else if harness_errors > 0 {
        eprintln!("[{}] INCONCLUSIVE: {harness_errors} harness error(s), see above", def.id);
        2
    } else if merged.evaluations == 0
        || merged.inconclusive * 10 > merged.evaluations.max(1)
        || distinct_nontrivial < (def.nt_floor)(tier)
    {
        eprintln!(
            "[{}] INCONCLUSIVE: evaluations={} inconclusive={} distinct_nontrivial={} (floor {})",
            def.id,
            merged.evaluations,
            merged.inconclusive,
            distinct_nontrivial,
            (def.nt_floor)(tier)
        );
        2
    } else {
        0
    };
    RunOutcome { exit_code }
}

/// A panic whose location is in the harness crate itself (cargo reports those relative to the crate root,
/// "src/...", while the repository's files come with their /repo/... path and are shortened to "protocols/...").
fn is_harness_panic(signature: &str) -> bool {
    signature.starts_with("panic:src/") || signature.contains("-panic:src/")
}

/// Re-run one scenario in-process, verbosely.
pub fn replay(def: &'static PropDef, path: &str) -> i32 {
    let text = std::fs::read_to_string(path).expect("read replay file");
    let v: Value = serde_json::from_str(&text).expect("replay json");
    let tier = Tier::parse(v["tier"].as_str().unwrap_or("quick")).unwrap_or(Tier::Quick);
    let seed = v["seed"].as_u64().unwrap_or(1);
    let k = v["witness"]["scenario"]
        .as_u64()
        .or_else(|| v["witness"]["params"]["scenario"].as_u64());
    println!("replay of {} signature={}", def.id, v["signature"]);
    println!("recorded explanation: {}", v["what"]);
    println!("recorded witness: {}", serde_json::to_string_pretty(&v["witness"]).unwrap());
    let k = match k {
        Some(k) => k,
        None => {
            println!("witness carries no scenario index; the recorded witness above is the artefact");
            return 0;
        }
    };
    crate::install_quiet_panic_hook();
    let env = Env {
        tier,
        seed,
        verbose: true,
    };
    let mut d = Delta::default();
    (def.run)(&env, k, &mut d);
    let mut code = 0;
    for viol in &d.violations {
        println!("re-run: VIOLATION signature={} {}", viol.signature, viol.what);
        code = 1;
    }
    if code == 0 {
        println!("re-run of scenario {k}: no violation reproduced (see DESIGN.md on replay fidelity)");
    }
    code
}
