//! A two-endpoint driver around the real `Tcb`, shared by C01, C03, C12, C17.
//!
//! The driver owns two endpoints and an in-flight multiset of segments; every
//! call into a `Tcb` goes through a wrapper that records what was observed at
//! the API boundary (state before/after, results, emitted segments, delivered
//! bytes). Oracles live in the property modules.

use crate::catch;
use elvis_core::{
    protocols::{
        ipv4::Ipv4Address,
        tcp::verif::{
            segment_arrives_listen, AdvanceTimeResult, CloseResult, ListenResult, Segment,
            SegmentArrivesResult, State, Tcb, TcbSnapshot,
        },
        Endpoint, Endpoints,
    },
    Message,
};
use std::time::Duration;

pub const A: usize = 0;
pub const B: usize = 1;

pub fn addr(side: usize) -> Ipv4Address {
    if side == A {
        Ipv4Address::new([10, 0, 0, 1])
    } else {
        Ipv4Address::new([10, 0, 0, 2])
    }
}
pub fn port(side: usize) -> u16 {
    if side == A {
        0xA000
    } else {
        0xB000
    }
}
pub fn endpoints(side: usize) -> Endpoints {
    Endpoints::new(
        Endpoint::new(addr(side), port(side)),
        Endpoint::new(addr(1 - side), port(1 - side)),
    )
}

/// The byte the application on `side` submits at stream offset `i`: any 4
/// consecutive bytes identify their offset.
pub fn pattern(side: usize, i: usize) -> u8 {
    let word = (i / 4) as u32 ^ if side == A { 0x5A5A_0000 } else { 0xC3C3_0000 };
    word.to_be_bytes()[i % 4] ^ ((i % 4) as u8) << 6
}

#[derive(Debug, Clone, Copy, PartialEq, Eq)]
pub enum CallKind {
    Open,
    ListenArrive,
    Arrive,
    Close,
    Tick,
    Send,
    Receive,
    Segments,
}

/// What was observed around one API call
#[derive(Debug, Clone)]
pub struct CallObs {
    pub side: usize,
    pub kind: CallKind,
    /// None = no TCB (LISTEN, CLOSED or released)
    pub before: Option<State>,
    pub after: Option<State>,
    /// the call told the caller to delete the TCB
    pub released: bool,
    /// flags of the arriving segment (Arrive / ListenArrive)
    pub flags: u8,
    pub seg_seq: u32,
    pub seg_ack: u32,
    pub seg_len: usize,
    pub seg_wnd: u16,
    pub snap_before: Option<TcbSnapshot>,
    pub snap_after: Option<TcbSnapshot>,
    /// bytes newly delivered by a Receive call
    pub delivered: usize,
    /// segments emitted by a Segments call: (seq, ack, flags, len, wnd)
    pub emitted: Vec<(u32, u32, u8, usize, u16)>,
    pub detail: u64,
}

#[derive(Clone)]
pub struct Side {
    pub tcb: Option<Tcb>,
    /// passive endpoint that has not created its TCB yet
    pub listening: bool,
    /// this endpoint was opened passively
    pub passive: bool,
    /// times a reset in SYN-RECEIVED sent the passive endpoint back to LISTEN
    pub returned_to_listen: u64,
    pub released: bool,
    /// reference (SND.WND, SND.WL1, SND.WL2) kept by `window_bookkeeping_rule`; None = take the endpoint's own
    pub wmodel: Option<(u16, u32, u32)>,
    pub iss: u32,
    pub submitted: Vec<u8>,
    pub delivered: Vec<u8>,
    pub close_called: bool,
    pub submitted_at_close: usize,
    /// number of bytes accepted by send() (i.e. in a state that takes writes)
    pub emitted_segments: u64,
    /// highest seq+len of any data segment emitted so far (for retransmission detection)
    pub max_data_end: Option<u32>,
    pub retransmitted_data_segments: u64,
    pub rst_emitted: u64,
}

#[derive(Clone)]
pub struct Flight {
    pub to: usize,
    pub seg: Segment,
    pub uid: u64,
    pub injected: bool,
}

#[derive(Clone)]
pub struct Pair {
    pub sides: [Side; 2],
    pub net: Vec<Flight>,
    pub mtu: u16,
    pub obs: Vec<CallObs>,
    pub next_uid: u64,
    pub panic: Option<String>,
    /// first breach of the send-window bookkeeping rule (see `window_bookkeeping_rule`), if any
    pub window_rule_broken: Option<String>,
    pub out_of_order_arrivals: u64,
    pub drops: u64,
    pub dups: u64,
    pub last_delivered_uid: [u64; 2],
    pub discarded_no_tcb: u64,
}

fn flags_of(seg: &Segment) -> u8 {
    let c = seg.header.ctl;
    (c.fin() as u8)
        | (c.syn() as u8) << 1
        | (c.rst() as u8) << 2
        | (c.psh() as u8) << 3
        | (c.ack() as u8) << 4
        | (c.urg() as u8) << 5
}

pub fn flag_names(f: u8) -> String {
    let mut s = String::new();
    for (bit, name) in [(1, "F"), (2, "S"), (4, "R"), (8, "P"), (16, "A"), (32, "U")] {
        if f & bit != 0 {
            s.push_str(name);
        }
    }
    if s.is_empty() {
        s.push('-');
    }
    s
}

impl Side {
    fn new(iss: u32) -> Side {
        Side {
            tcb: None,
            listening: false,
            passive: false,
            returned_to_listen: 0,
            released: false,
            wmodel: None,
            iss,
            submitted: vec![],
            delivered: vec![],
            close_called: false,
            submitted_at_close: 0,
            emitted_segments: 0,
            max_data_end: None,
            retransmitted_data_segments: 0,
            rst_emitted: 0,
        }
    }
    pub fn state(&self) -> Option<State> {
        self.tcb.as_ref().map(|t| t.status())
    }
    pub fn snap(&self) -> Option<TcbSnapshot> {
        self.tcb.as_ref().map(|t| t.verif_snapshot())
    }
}

#[derive(Debug, Clone, Copy, PartialEq, Eq)]
pub enum OpenStyle {
    /// A opens actively, B listens
    ActivePassive,
    /// both open actively
    Simultaneous,
}

impl Pair {
    pub fn new(style: OpenStyle, iss_a: u32, iss_b: u32, mtu: u16) -> Pair {
        let mut p = Pair {
            sides: [Side::new(iss_a), Side::new(iss_b)],
            net: vec![],
            mtu,
            obs: vec![],
            next_uid: 1,
            panic: None,
            window_rule_broken: None,
            out_of_order_arrivals: 0,
            drops: 0,
            dups: 0,
            last_delivered_uid: [0, 0],
            discarded_no_tcb: 0,
        };
        p.open(A);
        match style {
            OpenStyle::ActivePassive => {
                p.sides[B].listening = true;
                p.sides[B].passive = true;
            }
            OpenStyle::Simultaneous => p.open(B),
        }
        p
    }

    fn blank_obs(&self, side: usize, kind: CallKind) -> CallObs {
        CallObs {
            side,
            kind,
            before: self.sides[side].state(),
            after: None,
            released: false,
            flags: 0,
            seg_seq: 0,
            seg_ack: 0,
            seg_len: 0,
            seg_wnd: 0,
            snap_before: self.sides[side].snap(),
            snap_after: None,
            delivered: 0,
            emitted: vec![],
            detail: 0,
        }
    }

    fn finish_obs(&mut self, mut o: CallObs) {
        o.after = self.sides[o.side].state();
        o.snap_after = self.sides[o.side].snap();
        if o.kind == CallKind::Arrive {
            let side = o.side;
            let mut model = self.sides[side].wmodel;
            if let Some(v) = window_bookkeeping_rule(&o, &mut model) {
                if self.window_rule_broken.is_none() {
                    self.window_rule_broken = Some(v);
                }
            }
            self.sides[side].wmodel = model;
        }
        self.obs.push(o);
    }

    pub fn open(&mut self, side: usize) {
        let o = self.blank_obs(side, CallKind::Open);
        let iss = self.sides[side].iss;
        let mtu = self.mtu;
        match catch(|| Tcb::open(endpoints(side), iss, mtu)) {
            Ok(t) => self.sides[side].tcb = Some(t),
            Err(e) => self.panic = Some(format!("Tcb::open: {e}")),
        }
        self.finish_obs(o);
    }

    /// Application write of `n` bytes of the side's pattern
    pub fn write(&mut self, side: usize, n: usize) -> bool {
        let n = crate::cap(n);
        if self.panic.is_some() {
            return false;
        }
        let accepts = matches!(
            self.sides[side].state(),
            Some(State::SynSent) | Some(State::SynReceived) | Some(State::Established)
        );
        if !accepts {
            return false;
        }
        let mut o = self.blank_obs(side, CallKind::Send);
        o.detail = n as u64;
        let start = self.sides[side].submitted.len();
        let bytes: Vec<u8> = (start..start + n).map(|i| pattern(side, i)).collect();
        let s = &mut self.sides[side];
        let tcb = s.tcb.as_mut().unwrap();
        let msg = Message::new(bytes.clone());
        match catch(|| tcb.send(msg)) {
            Ok(()) => s.submitted.extend_from_slice(&bytes),
            Err(e) => self.panic = Some(format!("Tcb::send: {e}")),
        }
        self.finish_obs(o);
        true
    }

    /// Application read: everything receive() hands over
    pub fn read(&mut self, side: usize) -> usize {
        if self.panic.is_some() || self.sides[side].tcb.is_none() {
            return 0;
        }
        let mut o = self.blank_obs(side, CallKind::Receive);
        let s = &mut self.sides[side];
        let tcb = s.tcb.as_mut().unwrap();
        let mut n = 0;
        match catch(|| tcb.receive()) {
            Ok(m) => {
                let v = m.to_vec();
                n = v.len();
                s.delivered.extend_from_slice(&v);
            }
            Err(e) => self.panic = Some(format!("Tcb::receive: {e}")),
        }
        o.delivered = n;
        self.finish_obs(o);
        n
    }

    /// segments() → network
    pub fn pump(&mut self, side: usize) -> usize {
        if self.panic.is_some() || self.sides[side].tcb.is_none() {
            return 0;
        }
        let mut o = self.blank_obs(side, CallKind::Segments);
        let r = {
            let tcb = self.sides[side].tcb.as_mut().unwrap();
            catch(|| tcb.segments())
        };
        let mut n = 0;
        match r {
            Ok(segs) => {
                n = segs.len();
                for seg in segs {
                    let f = flags_of(&seg);
                    let len = seg.text.len();
                    o.emitted.push((seg.header.seq, seg.header.ack, f, len, seg.header.wnd));
                    let s = &mut self.sides[side];
                    s.emitted_segments += 1;
                    if f & 4 != 0 {
                        s.rst_emitted += 1;
                    }
                    if len > 0 {
                        let end = seg.header.seq.wrapping_add(len as u32);
                        match s.max_data_end {
                            Some(m) if (end.wrapping_sub(m) as i32) <= 0 => s.retransmitted_data_segments += 1,
                            _ => s.max_data_end = Some(end),
                        }
                    }
                    let uid = self.next_uid;
                    self.next_uid += 1;
                    self.net.push(Flight {
                        to: 1 - side,
                        seg,
                        uid,
                        injected: false,
                    });
                }
            }
            Err(e) => self.panic = Some(format!("Tcb::segments: {e}")),
        }
        self.finish_obs(o);
        n
    }

    pub fn tick(&mut self, side: usize, ms: u64) {
        if self.panic.is_some() || self.sides[side].tcb.is_none() {
            return;
        }
        let mut o = self.blank_obs(side, CallKind::Tick);
        o.detail = ms;
        let r = {
            let tcb = self.sides[side].tcb.as_mut().unwrap();
            catch(|| tcb.advance_time(Duration::from_millis(ms)))
        };
        match r {
            Ok(AdvanceTimeResult::Ignore) => {}
            Ok(AdvanceTimeResult::CloseConnection) => {
                o.released = true;
                o.snap_after = self.sides[side].snap();
                self.sides[side].tcb = None;
                self.sides[side].released = true;
            }
            Err(e) => self.panic = Some(format!("Tcb::advance_time: {e}")),
        }
        self.finish_obs(o);
    }

    pub fn close(&mut self, side: usize) -> Option<CloseResult> {
        if self.panic.is_some() || self.sides[side].tcb.is_none() {
            return None;
        }
        let o = self.blank_obs(side, CallKind::Close);
        let r = {
            let tcb = self.sides[side].tcb.as_mut().unwrap();
            catch(|| tcb.close())
        };
        let mut out = None;
        match r {
            Ok(res) => {
                if res == CloseResult::Ok && !self.sides[side].close_called {
                    self.sides[side].close_called = true;
                    self.sides[side].submitted_at_close = self.sides[side].submitted.len();
                }
                out = Some(res);
            }
            Err(e) => self.panic = Some(format!("Tcb::close: {e}")),
        }
        self.finish_obs(o);
        out
    }

    /// Hand an arbitrary segment to `side` (used by deliver and by injectors)
    pub fn arrive(&mut self, side: usize, seg: Segment) {
        if self.panic.is_some() {
            return;
        }
        let f = flags_of(&seg);
        let (sq, ak, ln, wn) = (seg.header.seq, seg.header.ack, seg.text.len(), seg.header.wnd);
        if self.sides[side].tcb.is_some() {
            let mut o = self.blank_obs(side, CallKind::Arrive);
            o.flags = f;
            o.seg_seq = sq;
            o.seg_ack = ak;
            o.seg_len = ln;
            o.seg_wnd = wn;
            let r = {
                let tcb = self.sides[side].tcb.as_mut().unwrap();
                catch(|| tcb.segment_arrives(seg))
            };
            match r {
                Ok(SegmentArrivesResult::Ok) => {}
                Ok(SegmentArrivesResult::Close) => {
                    o.released = true;
                    o.snap_after = self.sides[side].snap();
                    self.sides[side].tcb = None;
                    if self.sides[side].passive && o.before == Some(State::SynReceived) && f & 4 != 0 {
                        // RFC 9293 3.10.7.4: a reset in SYN-RECEIVED returns a passively
                        // opened connection to LISTEN (the stack's listen binding stays)
                        self.sides[side].listening = true;
                        self.sides[side].returned_to_listen += 1;
                        // the next incarnation gets its own initial sequence number, as in the stack
                        // (tcp.rs draws a fresh random one per SYN that reaches a listen binding): with the
                        // same one, segments of the aborted incarnation would be indistinguishable from new ones
                        self.sides[side].iss = self.sides[side].iss.wrapping_add(0x2357_1113);
                        // what the application wrote into the aborted incarnation is gone with it
                        // (RFC: the retransmission queue is flushed, the user need not be informed)
                        self.sides[side].submitted.clear();
                        self.sides[side].close_called = false;
                        self.sides[side].submitted_at_close = 0;
                        self.sides[side].max_data_end = None;
                    } else {
                        self.sides[side].released = true;
                    }
                }
                Err(e) => self.panic = Some(format!("Tcb::segment_arrives [{} seq={sq} ack={ak} len={ln} wnd={wn}]: {e}", flag_names(f))),
            }
            self.finish_obs(o);
        } else if self.sides[side].listening {
            let mut o = self.blank_obs(side, CallKind::ListenArrive);
            o.flags = f;
            o.seg_seq = sq;
            o.seg_ack = ak;
            o.seg_len = ln;
            o.seg_wnd = wn;
            let iss = self.sides[side].iss;
            let mtu = self.mtu;
            let r = catch(|| segment_arrives_listen(seg, addr(side), addr(1 - side), iss, mtu));
            match r {
                Ok(Some(ListenResult::Tcb(t))) => {
                    self.sides[side].tcb = Some(t);
                    self.sides[side].listening = false;
                }
                Ok(Some(ListenResult::Response(h))) => {
                    let uid = self.next_uid;
                    self.next_uid += 1;
                    if h.ctl.rst() {
                        self.sides[side].rst_emitted += 1;
                    }
                    o.emitted.push((h.seq, h.ack, u8::from(h.ctl), 0, h.wnd));
                    self.net.push(Flight {
                        to: 1 - side,
                        seg: Segment::new(h, Message::default()),
                        uid,
                        injected: false,
                    });
                }
                Ok(None) => {}
                Err(e) => self.panic = Some(format!("segment_arrives_listen [{} seq={sq} ack={ak} len={ln}]: {e}", flag_names(f))),
            }
            self.finish_obs(o);
        } else {
            // released / closed: the stack's session task is gone and nothing answers
            self.discarded_no_tcb += 1;
        }
    }

    pub fn deliver(&mut self, idx: usize) {
        if idx >= self.net.len() {
            return;
        }
        let fl = self.net.remove(idx);
        if fl.uid < self.last_delivered_uid[fl.to] {
            self.out_of_order_arrivals += 1;
        }
        self.last_delivered_uid[fl.to] = self.last_delivered_uid[fl.to].max(fl.uid);
        self.arrive(fl.to, fl.seg);
    }

    pub fn drop_flight(&mut self, idx: usize) {
        if idx < self.net.len() {
            self.net.remove(idx);
            self.drops += 1;
        }
    }

    pub fn duplicate(&mut self, idx: usize) {
        if idx < self.net.len() {
            let mut c = self.net[idx].clone();
            c.uid = self.next_uid;
            self.next_uid += 1;
            self.net.push(c);
            self.dups += 1;
        }
    }

    /// One round of a fair network: both sides emit, everything in flight is
    /// delivered in order, both applications read, time advances past the
    /// retransmission timeout. Returns the number of segments that were emitted.
    pub fn fair_round(&mut self, tick_ms: u64, read: bool) -> usize {
        let mut emitted = 0;
        emitted += self.pump(A);
        emitted += self.pump(B);
        // deliver everything currently in flight; replies produced meanwhile wait for the next round
        let n = self.net.len();
        for _ in 0..n {
            if self.panic.is_some() {
                break;
            }
            self.deliver(0);
        }
        if read {
            self.read(A);
            self.read(B);
        }
        self.tick(A, tick_ms);
        self.tick(B, tick_ms);
        emitted
    }
}

/// Circular "a is before or at b"
pub fn seq_leq(a: u32, b: u32) -> bool {
    (b.wrapping_sub(a) as i32) >= 0
}

pub fn is_prefix(short: &[u8], long: &[u8]) -> bool {
    short.len() <= long.len() && long[..short.len()] == *short
}


fn sq_lt(a: u32, b: u32) -> bool {
    (b.wrapping_sub(a) as i32) > 0
}
fn sq_leq(a: u32, b: u32) -> bool {
    (b.wrapping_sub(a) as i32) >= 0
}

/// RFC 9293 3.10.7.4, ESTABLISHED, ACK processing: "If SND.UNA =< SEG.ACK =< SND.NXT, the send window should be
/// updated. If (SND.WL1 < SEG.SEQ or (SND.WL1 = SEG.SEQ and SND.WL2 =< SEG.ACK)), set SND.WND <- SEG.WND, set
/// SND.WL1 <- SEG.SEQ, and set SND.WL2 <- SEG.ACK." - in circular arithmetic. This is what "the window the peer
/// last advertised" means once segments can be reordered.
///
/// `model` is the reference (WND, WL1, WL2). It follows the rule across the calls that can be judged - one
/// arriving segment being the only thing the call processes while the connection stays ESTABLISHED: ACK without
/// SYN/RST/FIN, exactly in order (SEG.SEQ = RCV.NXT, nothing queued ahead), receive window open - and is reset
/// to the endpoint's own values by every other arrival. Only SND.WND is compared (a lagging WL1/WL2 that never
/// changes which window is in force is not held against the endpoint).
pub fn window_bookkeeping_rule(o: &CallObs, model: &mut Option<(u16, u32, u32)>) -> Option<String> {
    let own = |s: &TcbSnapshot| (s.snd_wnd, s.snd_wl1, s.snd_wl2);
    let (b, a) = match (o.snap_before.as_ref(), o.snap_after.as_ref()) {
        (Some(b), Some(a)) => (b, a),
        _ => {
            *model = None;
            return None;
        }
    };
    let judgeable = b.state == State::Established
        && a.state == State::Established
        && o.flags & 16 != 0
        && o.flags & (1 | 2 | 4) == 0
        && o.seg_seq == b.rcv_nxt
        && b.heap_len == 0
        && b.rcv_wnd != 0;
    if !judgeable {
        *model = Some(own(a));
        return None;
    }
    let m = model.unwrap_or(own(b));
    if !(sq_leq(b.snd_una, o.seg_ack) && sq_leq(o.seg_ack, b.snd_nxt)) {
        // old duplicate, or ACK of something not sent: the window stays as it was
        *model = Some(m);
        if a.snd_wnd != b.snd_wnd {
            return Some(format!("an ACK outside SND.UNA..=SND.NXT ({} vs {}..={}) changed SND.WND from {} to {}", o.seg_ack, b.snd_una, b.snd_nxt, b.snd_wnd, a.snd_wnd));
        }
        return None;
    }
    let fresh = sq_lt(m.1, o.seg_seq) || (m.1 == o.seg_seq && sq_leq(m.2, o.seg_ack));
    let want = if fresh { (o.seg_wnd, o.seg_seq, o.seg_ack) } else { m };
    *model = Some(want);
    if a.snd_wnd != want.0 {
        return Some(format!(
            "segment [ACK] seq {} ack {} wnd {} arrived in order (SND.UNA {} SND.NXT {}); by RFC 9293's update rule the window in force is {} (reference WL1 {} WL2 {} before the segment, which is {} by that rule), the endpoint has SND.WND {} WL1 {} WL2 {}",
            o.seg_seq, o.seg_ack, o.seg_wnd, b.snd_una, b.snd_nxt, want.0, m.1, m.2, if fresh { "fresh" } else { "old" }, a.snd_wnd, a.snd_wl1, a.snd_wl2
        ));
    }
    None
}
