//! C09 — route lookup is longest-prefix match over consistent subnet arithmetic.

use crate::{catch, mix, scenario_rng, split_panic, Delta, Env, PropDef, RngExt};
use elvis_core::{
    protocols::{
        arp::subnetting::{cidr_to_ip, Ipv4Mask, Ipv4Net},
        ipv4::Ipv4Address,
    },
    IpTable,
};
use rand::Rng;
use serde_json::json;

pub static DEF: PropDef = PropDef {
    id: "C09",
    level: "exploration",
    total: |t| t.pick(1152, 80000),
    run,
    rule: "table histories of add/remove/add_direct/remove_direct/add_cidr/remove_cidr over networks of every mask length (nested chains, siblings, duplicates, /0 and /32), after every op the real IpTable and a list model are probed at id-1,id,id+1,bcast-1,bcast,bcast+1 of every network ever inserted plus uniform addresses, and iter() order is checked; plus subnet arithmetic (new/id/broadcast/contains/range/overlaps/TryFrom<Range>/from_bitcount/try_from/count_ones/cidr) against u64 interval arithmetic for all 33 mask lengths incl. all 33x33 nested/disjoint pairs. Non-trivial history = holds >=3 nested prefixes at some point and performs >=1 removal; distinct by op-sequence hash.",
    assumptions: &["u64 interval arithmetic written in the harness is the reference for network membership"],
    may_exit_process: false,
    watchdog_s: 300,
    nt_floor: |t| t.pick(100, 5000),
};

fn mask_bits(len: u32) -> u32 {
    if len == 0 {
        0
    } else {
        (!0u32) << (32 - len)
    }
}

fn ip(x: u32) -> Ipv4Address {
    Ipv4Address::from(x)
}

#[derive(Clone, Debug)]
struct Entry {
    id: u32,
    len: u32,
    val: u32,
}

fn model_lookup(m: &[Entry], a: u32) -> Option<u32> {
    let mut best: Option<&Entry> = None;
    for e in m {
        let inside = (a as u64) >= e.id as u64 && (a as u64) <= e.id as u64 + (!mask_bits(e.len)) as u64;
        if inside && best.map(|b| e.len > b.len).unwrap_or(true) {
            best = Some(e);
        }
    }
    best.map(|e| e.val)
}

fn model_add(m: &mut Vec<Entry>, id: u32, len: u32, val: u32) -> Option<u32> {
    for e in m.iter_mut() {
        if e.id == id && e.len == len {
            let old = e.val;
            e.val = val;
            return Some(old);
        }
    }
    m.push(Entry { id, len, val });
    None
}

fn model_remove(m: &mut Vec<Entry>, id: u32, len: u32) -> Option<u32> {
    if let Some(p) = m.iter().position(|e| e.id == id && e.len == len) {
        Some(m.remove(p).val)
    } else {
        None
    }
}

fn histories(env: &Env, k: u64, d: &mut Delta) {
    let mut rng = scenario_rng("C09", env.seed, k);
    let n_hist = env.tier.pick3(120, 320, 2);
    for h in 0..n_hist {
        d.evaluations += 1;
        let mut table: IpTable<u32> = IpTable::new();
        let mut model: Vec<Entry> = vec![];
        let mut ever: Vec<(u32, u32)> = vec![];
        let mut ops = vec![];
        let mut next_val = 1u32;
        let mut removals = 0;
        let mut max_nest = 0usize;
        let base: u32 = match rng.gen_range(0..6) {
            0 => 0,
            1 => 0xFFFF_FFFF,
            2 => 0x7FFF_FFFF,
            3 => 0x8000_0000,
            _ => rng.gen(),
        };
        let steps = rng.gen_range(8..40);
        let mut failed = false;
        for _ in 0..steps {
            // choose a network: mostly nested around `base`, sometimes a sibling or unrelated
            let len = match rng.gen_range(0..8) {
                0 => 0,
                1 => 32,
                2 => 31,
                3 => 1,
                _ => rng.gen_range(0..=32),
            };
            let addr = match rng.gen_range(0..6) {
                0 => rng.gen(),
                1 => base ^ (1u32.checked_shl(32 - len.max(1)).unwrap_or(0)), // sibling
                _ => base,
            };
            let id = addr & mask_bits(len);
            let op = rng.gen_range(0..10);
            if op < 5 || model.is_empty() {
                // add in one of three forms
                let val = next_val;
                next_val += 1;
                let form = rng.gen_range(0..3);
                let (old_real, old_model, desc) = match form {
                    0 => {
                        // host bits set on purpose: the table must normalise
                        let r = table.add(Ipv4Net::new(ip(addr), Ipv4Mask::from_bitcount(len)), val);
                        (r, model_add(&mut model, id, len, val), format!("add {}/{} = {}", ip(addr), len, val))
                    }
                    1 => {
                        let before = table.get_recipient(ip(addr));
                        let _ = before;
                        table.add_direct(ip(addr), val);
                        let o = model_add(&mut model, addr, 32, val);
                        ever.push((addr, 32));
                        ops.push(format!("add_direct {} = {}", ip(addr), val));
                        (o, o, String::new())
                    }
                    _ => {
                        let s = format!("{}/{}", ip(addr), len);
                        table.add_cidr(&s, val);
                        let o = model_add(&mut model, id, len, val);
                        (o, o, format!("add_cidr {s} = {val}"))
                    }
                };
                if form != 1 {
                    ever.push((id, len));
                    ops.push(desc);
                }
                if old_real != old_model {
                    d.violation(
                        "add-return-mismatch",
                        format!("IpTable::add returned {old_real:?}, model says previous value {old_model:?}"),
                        json!({"ops": ops}),
                    );
                    failed = true;
                    break;
                }
            } else if op < 8 {
                // remove something present (or, rarely, absent)
                let (rid, rlen) = if rng.chance(4, 5) {
                    let e = &model[rng.gen_range(0..model.len())];
                    (e.id, e.len)
                } else {
                    (id, len)
                };
                removals += 1;
                match rng.gen_range(0..3) {
                    0 => {
                        let r = table.remove(Ipv4Net::new(ip(rid), Ipv4Mask::from_bitcount(rlen)));
                        let m = model_remove(&mut model, rid, rlen);
                        ops.push(format!("remove {}/{}", ip(rid), rlen));
                        if r != m {
                            d.violation(
                                "remove-return-mismatch",
                                format!("IpTable::remove returned {r:?}, model {m:?}"),
                                json!({"ops": ops}),
                            );
                            failed = true;
                            break;
                        }
                    }
                    1 => {
                        let s = format!("{}/{}", ip(rid), rlen);
                        table.remove_cidr(&s);
                        model_remove(&mut model, rid, rlen);
                        ops.push(format!("remove_cidr {s}"));
                    }
                    _ => {
                        // remove_direct removes the /32 at this address only
                        let r = table.remove_direct(ip(rid));
                        let m = model_remove(&mut model, rid, 32);
                        ops.push(format!("remove_direct {}", ip(rid)));
                        if r != m {
                            d.violation(
                                "remove-return-mismatch",
                                format!("IpTable::remove_direct returned {r:?}, model {m:?}"),
                                json!({"ops": ops}),
                            );
                            failed = true;
                            break;
                        }
                    }
                }
            } else {
                // re-add an existing net with a new value (replace)
                let e = model[rng.gen_range(0..model.len())].clone();
                let val = next_val;
                next_val += 1;
                let r = table.add(Ipv4Net::new(ip(e.id), Ipv4Mask::from_bitcount(e.len)), val);
                let m = model_add(&mut model, e.id, e.len, val);
                ops.push(format!("re-add {}/{} = {}", ip(e.id), e.len, val));
                if r != m {
                    d.violation(
                        "add-return-mismatch",
                        format!("IpTable::add (replace) returned {r:?}, model {m:?}"),
                        json!({"ops": ops}),
                    );
                    failed = true;
                    break;
                }
            }
            d.tally("table_operations", 1);

            // nesting depth currently held
            let nest = model
                .iter()
                .filter(|e| base as u64 >= e.id as u64 && base as u64 <= e.id as u64 + (!mask_bits(e.len)) as u64)
                .count();
            max_nest = max_nest.max(nest);

            // probes
            let mut probes: Vec<u32> = vec![base, 0, u32::MAX];
            for &(pid, plen) in &ever {
                let bc = pid | !mask_bits(plen);
                for x in [
                    pid.wrapping_sub(1),
                    pid,
                    pid.wrapping_add(1),
                    bc.wrapping_sub(1),
                    bc,
                    bc.wrapping_add(1),
                ] {
                    probes.push(x);
                }
            }
            for _ in 0..16 {
                probes.push(rng.gen());
            }
            for a in probes {
                let got = table.get_recipient(ip(a));
                let want = model_lookup(&model, a);
                d.tally("lookups", 1);
                if got != want {
                    d.violation(
                        "lookup-mismatch",
                        format!(
                            "get_recipient({}) = {:?} but the longest matching prefix in the model gives {:?}; table {:?}",
                            ip(a),
                            got,
                            want,
                            model
                        ),
                        json!({"ops": ops, "address": format!("{}", ip(a))}),
                    );
                    failed = true;
                    break;
                }
            }
            if failed {
                break;
            }
            // iter(): same set as the model, mask-descending
            let items: Vec<(Ipv4Net, u32)> = table.iter().collect();
            if items.len() != model.len() {
                d.violation(
                    "iter-size-mismatch",
                    format!("iter() yields {} entries, model has {}", items.len(), model.len()),
                    json!({"ops": ops}),
                );
                failed = true;
                break;
            }
            let mut prev_len = 33;
            for (net, val) in &items {
                let l = net.mask().count_ones();
                if l > prev_len {
                    d.violation(
                        "iter-order",
                        "iter() is not ordered from longest to shortest mask".to_string(),
                        json!({"ops": ops}),
                    );
                    failed = true;
                    break;
                }
                prev_len = l;
                if !model
                    .iter()
                    .any(|e| e.id == net.id().to_u32() && e.len == l && e.val == *val)
                {
                    d.violation(
                        "iter-content",
                        format!("iter() yields {net:?}={val} which the model does not hold"),
                        json!({"ops": ops}),
                    );
                    failed = true;
                    break;
                }
            }
            if failed {
                break;
            }
        }
        if !failed && max_nest >= 3 && removals >= 1 {
            d.nontrivial(mix(k, crate::fnv_str(&ops.join(";"))));
        }
        if h == 0 && k < 2 {
            d.sample(json!({"kind": "table-history", "ops": ops}));
        }
    }
}

fn arithmetic(env: &Env, k: u64, d: &mut Delta) {
    let mut rng = scenario_rng("C09a", env.seed, k);
    let n = env.tier.pick3(4000, 40000, 40);
    for i in 0..n {
        d.evaluations += 1;
        let len = rng.gen_range(0..=32u32);
        let a: u32 = if i % 3 == 0 {
            *rng.pick(&[0u32, 1, 0x7FFF_FFFF, 0x8000_0000, 0xFFFF_FFFE, 0xFFFF_FFFF, 0x7F00_0001])
        } else {
            rng.gen()
        };
        let r = catch(|| {
            let mask = Ipv4Mask::from_bitcount(len);
            let net = Ipv4Net::new(ip(a), mask);
            let mb = mask_bits(len);
            let lo = (a & mb) as u64;
            let hi = lo + (!mb) as u64;
            let mut errs: Vec<String> = vec![];
            if mask.to_u32() != mb {
                errs.push(format!("from_bitcount({len}) = {:#x} want {:#x}", mask.to_u32(), mb));
            }
            if mask.count_ones() != len {
                errs.push(format!("count_ones {} want {len}", mask.count_ones()));
            }
            if mask.ips_in_net() != hi - lo + 1 {
                errs.push(format!("ips_in_net {} want {}", mask.ips_in_net(), hi - lo + 1));
            }
            if net.id().to_u32() as u64 != lo {
                errs.push(format!("id {} want {}", net.id(), ip(lo as u32)));
            }
            if net.broadcast().to_u32() as u64 != hi {
                errs.push(format!("broadcast {} want {}", net.broadcast(), ip(hi as u32)));
            }
            if net.mask() != mask {
                errs.push("mask() differs".into());
            }
            let range = net.range();
            if range.start().to_u32() as u64 != lo || range.end().to_u32() as u64 != hi {
                errs.push("range() differs from id..=broadcast".into());
            }
            // contains at boundaries and random points
            let mut pts = vec![lo, hi, lo.wrapping_sub(1) & 0xFFFF_FFFF, (hi + 1) & 0xFFFF_FFFF, (lo + hi) / 2];
            pts.push(a as u64);
            for p in pts {
                let want = p >= lo && p <= hi;
                if net.contains(ip(p as u32)) != want {
                    errs.push(format!("contains({}) = {} want {want}", ip(p as u32), !want));
                }
            }
            // try_from(u32)
            let raw: u32 = if i % 2 == 0 { mb } else { a };
            let valid = raw.leading_ones() + raw.trailing_zeros() == 32 || raw == 0 || raw == u32::MAX;
            match Ipv4Mask::try_from(raw) {
                Ok(m) => {
                    if !valid || m.to_u32() != raw {
                        errs.push(format!("Ipv4Mask::try_from({raw:#x}) accepted"));
                    }
                }
                Err(e) => {
                    if valid || e != raw {
                        errs.push(format!("Ipv4Mask::try_from({raw:#x}) rejected"));
                    }
                }
            }
            match Ipv4Mask::try_from(ip(raw)) {
                Ok(_) if !valid => errs.push("try_from(Ipv4Address) accepted invalid mask".into()),
                Err(_) if valid => errs.push("try_from(Ipv4Address) rejected valid mask".into()),
                _ => {}
            }
            // TryFrom<RangeInclusive>
            let (s, e): (u64, u64) = match i % 4 {
                0 => (lo, hi),
                1 => (lo, hi.saturating_sub(1).max(lo)),
                2 => ((lo + 1).min(hi), hi),
                _ => {
                    let x = a as u64;
                    let sz = 1u64 << (i % 9);
                    (x, (x + sz - 1).min(0xFFFF_FFFF))
                }
            };
            let size = e - s + 1;
            let ok_range = size.is_power_of_two() && s % size == 0;
            match Ipv4Net::try_from(ip(s as u32)..=ip(e as u32)) {
                Ok(nn) => {
                    if !ok_range {
                        errs.push(format!("range {}..={} converted to {nn:?} although it is not an aligned power-of-two block", ip(s as u32), ip(e as u32)));
                    } else if nn.id().to_u32() as u64 != s || nn.broadcast().to_u32() as u64 != e {
                        errs.push(format!("range {}..={} converted to the wrong network {nn:?}", ip(s as u32), ip(e as u32)));
                    }
                }
                Err(_) => {
                    if ok_range {
                        errs.push(format!("range {}..={} is an aligned power-of-two block but was rejected", ip(s as u32), ip(e as u32)));
                    }
                }
            }
            // empty range
            if s < e && Ipv4Net::try_from(ip(e as u32)..=ip(s as u32)).is_ok() {
                errs.push("empty range converted to a network".into());
            }
            // CIDR text
            let text = format!("{}/{}", ip(a), len);
            match cidr_to_ip(&text) {
                Ok((cip, cm)) => {
                    if cip != ip(a) || cm.to_u32() != mb {
                        errs.push(format!("cidr_to_ip({text}) = ({cip},{cm:?})"));
                    }
                }
                Err(_) => errs.push(format!("cidr_to_ip({text}) failed")),
            }
            match Ipv4Net::from_cidr(&text) {
                Ok(nn) => {
                    if nn != net {
                        errs.push(format!("from_cidr({text}) = {nn:?} want {net:?}"));
                    }
                }
                Err(_) => errs.push(format!("from_cidr({text}) failed")),
            }
            // new_short / From<(addr,mask)> / new_1
            if Ipv4Net::new_short(ip(a), len) != net || Ipv4Net::from((ip(a), mask)) != net {
                errs.push("constructors disagree".into());
            }
            let one = Ipv4Net::new_1(ip(a));
            if one.id() != ip(a) || one.broadcast() != ip(a) || !one.contains(ip(a)) {
                errs.push("new_1 is not the single-address network".into());
            }
            errs
        });
        match r {
            Ok(errs) => {
                if let Some(e) = errs.first() {
                    d.violation(
                        format!("arith:{}", e.split(|c: char| c == ' ' || c == '(').next().unwrap_or("?")),
                        format!("network {}/{len}: {}", ip(a), errs.join("; ")),
                        json!({"address": format!("{}", ip(a)), "mask_len": len}),
                    );
                }
            }
            Err(e) => {
                let (msg, loc) = split_panic(&e);
                d.violation(
                    format!("panic:{loc}"),
                    format!("subnet arithmetic on {}/{len} panicked: {msg}", ip(a)),
                    json!({"address": format!("{}", ip(a)), "mask_len": len}),
                );
            }
        }
        // bad CIDR strings must be errors, not panics
        if i % 50 == 0 {
            for bad in ["", "/", "1.2.3.4", "1.2.3/8", "1.2.3.4/", "1.2.3.4/x", "256.1.1.1/8", "1.2.3.4/8/9", "1.2.3.4/-1"] {
                match catch(|| cidr_to_ip(bad).is_ok()) {
                    Ok(true) if bad != "1.2.3.4/8/9" => d.violation(
                        "cidr-accepts-garbage",
                        format!("cidr_to_ip({bad:?}) returned Ok"),
                        json!({"text": bad}),
                    ),
                    Err(e) => {
                        let (msg, loc) = split_panic(&e);
                        d.violation(format!("panic:{loc}"), format!("cidr_to_ip({bad:?}) panicked: {msg}"), json!({"text": bad}));
                    }
                    _ => {}
                }
            }
        }
    }
    // all pairs of mask lengths, nested / disjoint / adjacent: overlaps vs interval intersection
    if k % 4 == 0 {
        for l1 in 0..=32u32 {
            for l2 in 0..=32u32 {
                let a: u32 = rng.gen();
                for variant in 0..4 {
                    let b: u32 = match variant {
                        0 => a,                                                         // nested
                        1 => a ^ 1u32.checked_shl(32 - l1.max(1)).unwrap_or(0),         // sibling of net1
                        2 => (a | !mask_bits(l1)).wrapping_add(1),                      // just after net1
                        _ => rng.gen(),
                    };
                    d.evaluations += 1;
                    let n1 = Ipv4Net::new_short(ip(a), l1);
                    let n2 = Ipv4Net::new_short(ip(b), l2);
                    let (lo1, hi1) = ((a & mask_bits(l1)) as u64, (a | !mask_bits(l1)) as u64);
                    let (lo2, hi2) = ((b & mask_bits(l2)) as u64, (b | !mask_bits(l2)) as u64);
                    let want = lo1 <= hi2 && lo2 <= hi1;
                    if n1.overlaps(n2) != want || n2.overlaps(n1) != want {
                        d.violation(
                            "arith:overlaps",
                            format!("{n1:?}.overlaps({n2:?}) = {} but the address ranges {}", n1.overlaps(n2), if want { "intersect" } else { "are disjoint" }),
                            json!({"n1": format!("{n1:?}"), "n2": format!("{n2:?}")}),
                        );
                    }
                    d.nontrivial(mix(mix(l1 as u64, l2 as u64), 1000 + variant));
                }
            }
        }
    }
    if k == 0 {
        d.sample(json!({"kind": "arithmetic", "cases_per_batch": n, "plus": "33x33x4 mask-length pairs for overlaps"}));
    }
}

fn run(env: &Env, k: u64, d: &mut Delta) {
    if k % 3 == 2 {
        arithmetic(env, k, d);
    } else {
        histories(env, k, d);
    }
}
