//! C15 — address allocation never hands the same address to two holders.

use crate::net::*;
use crate::{catch, scenario_rng, split_panic, Delta, Env, PropDef, RngExt};
use elvis::applications::DhcpServer;
use elvis::ip_generator::{IpGenerator, IpRange};
use elvis_core::{
    network::{verif::Verdict, Latency, Mac, NetworkBuilder},
    protocols::{
        arp::subnetting::{Ipv4Mask, Ipv4Net},
        dhcp::{
            dhcp_client::DhcpClient,
            dhcp_parsing::{DhcpMessage, MessageType},
        },
        ipv4::{ipv4_parsing::Ipv4Header, Ipv4, Ipv4Address, Recipient},
        Arp, Endpoint, Endpoints, Pci, Udp,
    },
    run_internet_with_timeout, ExitStatus, IpTable, Machine,
};
use rand::Rng;
use serde_json::{json, Value};
use std::{
    collections::HashMap,
    sync::{Arc, Mutex},
    time::Duration,
};

pub static DEF: PropDef = PropDef {
    id: "C15",
    level: "exploration",
    total: |t| t.pick(640, 14400),
    run,
    rule: "(a) histories of <=60 operations {block subnet, fetch address, fetch subnet of any mask, return a held unit, return a subnet whose addresses are all available already (inside the pool, nothing of it held or blocked: the pool becomes a union of overlapping ranges)} on generators built by new(range) / new_sub / new_sub_no_ends / all / none over pools that are single ranges, subnets of any mask and unions created by returns, including pools touching 0.0.0.0 and 255.255.255.255; a model keeps the pool as units (constructor range, returned units, pieces left by blocking) and the list of held units; every result is checked for membership, disjointness from everything held or blocked, and None only when no unit can hold an aligned block; new_sub_no_ends must offer exactly the host addresses. (b) full stack on the paused clock and on the multi-thread runtime: 1..40 DHCP clients start at once against one server with a pool of at least the needed size, latency jitter, <=1 duplicated frame per sender; leases must be pairwise distinct, inside the pool, equal to the your_ip of an Offer sent to that client's tap (H4), and a released address must be available from the server's pool again. Non-trivial = (a) history with a fragmented pool and a return followed by a fetch, (b) >=2 clients; distinct by history / scenario hash.",
    assumptions: &["only units that are currently held are returned, and whole (returning something not held is misuse)", "merging of adjacent returned units is not demanded: 'no space' is judged per unit"],
    may_exit_process: true,
    watchdog_s: 300,
    nt_floor: |t| t.pick(100, 3000),
};

fn ip(x: u32) -> Ipv4Address {
    Ipv4Address::from(x)
}
fn mask_bits(len: u32) -> u32 {
    if len == 0 {
        0
    } else {
        (!0u32) << (32 - len)
    }
}

/// (lo, hi) inclusive
type Iv = (u64, u64);

#[derive(Clone, Debug)]
struct Model {
    units: Vec<Iv>,
    held: Vec<Iv>,
    /// what the constructor made available, and what block_subnet took away for good
    pool: Vec<Iv>,
    blocked: Vec<Iv>,
}

impl Model {
    fn block(&mut self, b: Iv) {
        let mut out = vec![];
        for u in self.units.drain(..) {
            if u.1 < b.0 || u.0 > b.1 {
                out.push(u);
                continue;
            }
            if u.0 < b.0 {
                out.push((u.0, b.0 - 1));
            }
            if u.1 > b.1 {
                out.push((b.1 + 1, u.1));
            }
        }
        self.units = out;
    }
    fn free_contains(&self, x: Iv) -> bool {
        self.units.iter().any(|u| u.0 <= x.0 && x.1 <= u.1)
    }
    fn any_fit(&self, size: u64) -> bool {
        self.units.iter().any(|u| {
            let start = (u.0 + size - 1) / size * size;
            start + size - 1 <= u.1
        })
    }
    fn overlaps_held(&self, x: Iv) -> bool {
        self.held.iter().any(|h| h.0 <= x.1 && x.0 <= h.1)
    }
}

fn generator_history(d: &mut Delta, rng: &mut impl Rng, sample: bool) {
    d.evaluations += 1;
    let mut ops: Vec<String> = vec![];
    // constructor
    let ctor = rng.gen_range(0..6);
    let base: u32 = match rng.gen_range(0..4) {
        0 => 0,
        1 => 0xFFFF_FF00,
        2 => 0x0A00_0000,
        _ => rng.gen::<u32>() & 0xFFFF_FF00,
    };
    let len = *rng.pick(&[32u32, 31, 30, 29, 28, 24, 20, 16, 8, 1, 0]);
    let net = Ipv4Net::new(ip(base), Ipv4Mask::from_bitcount(len));
    let (nlo, nhi) = ((base & mask_bits(len)) as u64, (base | !mask_bits(len)) as u64);
    let mut model = Model { units: vec![], held: vec![], pool: vec![], blocked: vec![] };
    let built = catch(|| match ctor {
        0 => {
            let a = base as u64;
            let b = (a + [0u64, 1, 7, 255, 1000][rng.gen_range(0..5)]).min(0xFFFF_FFFF);
            (IpGenerator::new(IpRange::new(ip(a as u32), ip(b as u32))), vec![(a, b)], format!("new({}..={})", ip(a as u32), ip(b as u32)))
        }
        1 => (IpGenerator::new_sub(net), vec![(nlo, nhi)], format!("new_sub({net:?})")),
        2 => {
            let u = if nhi >= nlo + 2 { vec![(nlo + 1, nhi - 1)] } else { vec![] };
            (IpGenerator::new_sub_no_ends(net), u, format!("new_sub_no_ends({net:?})"))
        }
        3 => (IpGenerator::all(), vec![(0, 0xFFFF_FFFF)], "all()".to_string()),
        4 => (IpGenerator::none(), vec![], "none()".to_string()),
        _ => {
            let a = 0xFFFF_FFFFu64 - [0u64, 3, 300][rng.gen_range(0..3)];
            (IpGenerator::new(IpRange::new(ip(a as u32), ip(0xFFFF_FFFF))), vec![(a, 0xFFFF_FFFF)], format!("new({}..=255.255.255.255)", ip(a as u32)))
        }
    });
    let (mut gen, units, desc) = match built {
        Ok(x) => x,
        Err(e) => {
            let (msg, loc) = split_panic(&e);
            d.violation(format!("panic:{loc}"), format!("constructing a generator panicked: {msg}"), json!({"ctor": ctor, "net": format!("{net:?}")}));
            return;
        }
    };
    model.pool = units.clone();
    model.units = units;
    ops.push(desc.clone());
    if ctor == 2 {
        // the statement's extra clause: exactly the host addresses
        let mut g2 = gen.clone();
        let mut got = vec![];
        while let Some(a) = g2.fetch_ip() {
            got.push(a.to_u32() as u64);
            if got.len() > 300 {
                break;
            }
        }
        let want: Vec<u64> = if nhi >= nlo + 2 { (nlo + 1..=nhi - 1).take(301).collect() } else { vec![] };
        if got != want {
            d.violation(
                "no-ends-generator-wrong-set",
                format!("new_sub_no_ends({net:?}) offers {} addresses (first {:?}); the subnet has {} host addresses (first {:?})", got.len(), got.first().map(|x| ip(*x as u32).to_string()), want.len(), want.first().map(|x| ip(*x as u32).to_string())),
                json!({"net": format!("{net:?}")}),
            );
            return;
        }
    }
    let steps = rng.gen_range(5..=60);
    let mut fragmented = false;
    let mut return_then_fetch = false;
    let mut returned_recently = false;
    for _ in 0..steps {
        let r = rng.gen_range(0..100);
        if r < 15 {
            // block a subnet somewhere in or around the pool
            let blen = *rng.pick(&[32u32, 31, 30, 28, 24]);
            let around = model.units.first().map(|u| u.0 + rng.gen_range(0..=(u.1 - u.0).min(600))).unwrap_or(base as u64) as u32;
            let bnet = Ipv4Net::new(ip(around), Ipv4Mask::from_bitcount(blen));
            let b = ((around & mask_bits(blen)) as u64, (around | !mask_bits(blen)) as u64);
            if model.overlaps_held(b) {
                continue; // blocking what someone holds is not part of the statement
            }
            ops.push(format!("block {bnet:?}"));
            if let Err(e) = catch(|| gen.block_subnet(bnet)) {
                let (msg, loc) = split_panic(&e);
                d.violation(format!("panic:{loc}"), format!("block_subnet panicked: {msg}"), json!({"ops": ops}));
                return;
            }
            model.block(b);
            model.blocked.push(b);
            if model.units.len() >= 2 {
                fragmented = true;
            }
        } else if r < 55 {
            ops.push("fetch_ip".into());
            let got = match catch(|| gen.fetch_ip()) {
                Ok(g) => g,
                Err(e) => {
                    let (msg, loc) = split_panic(&e);
                    d.violation(format!("panic:{loc}"), format!("fetch_ip panicked: {msg}"), json!({"ops": ops}));
                    return;
                }
            };
            match got {
                Some(a) => {
                    let x = (a.to_u32() as u64, a.to_u32() as u64);
                    if model.overlaps_held(x) {
                        d.violation("address-handed-out-twice", format!("fetch_ip returned {a}, which is still held"), json!({"ops": ops}));
                        return;
                    }
                    if !model.free_contains(x) {
                        d.violation("address-outside-pool-or-blocked", format!("fetch_ip returned {a}, which is not a free address of the pool"), json!({"ops": ops}));
                        return;
                    }
                    model.block(x);
                    model.held.push(x);
                    if returned_recently {
                        return_then_fetch = true;
                    }
                }
                None => {
                    if !model.units.is_empty() {
                        d.violation("exhaustion-reported-with-free-addresses", format!("fetch_ip returned None although {:?} is free", model.units.first().map(|u| (ip(u.0 as u32).to_string(), ip(u.1 as u32).to_string()))), json!({"ops": ops}));
                        return;
                    }
                    d.tally("exhaustions_reported", 1);
                }
            }
        } else if r < 75 {
            let mlen = *rng.pick(&[32u32, 31, 30, 29, 28, 24, 16]);
            ops.push(format!("fetch_net /{mlen}"));
            let got = match catch(|| gen.fetch_net(Ipv4Mask::from_bitcount(mlen))) {
                Ok(g) => g,
                Err(e) => {
                    let (msg, loc) = split_panic(&e);
                    d.violation(format!("panic:{loc}"), format!("fetch_net panicked: {msg}"), json!({"ops": ops}));
                    return;
                }
            };
            let size = 1u64 << (32 - mlen);
            match got {
                Some(n) => {
                    let x = (n.id().to_u32() as u64, n.broadcast().to_u32() as u64);
                    if n.mask().count_ones() != mlen || x.0 % size != 0 || x.1 - x.0 + 1 != size {
                        d.violation("subnet-misaligned", format!("fetch_net(/{mlen}) returned {n:?}"), json!({"ops": ops}));
                        return;
                    }
                    if model.overlaps_held(x) {
                        d.violation("subnet-overlaps-held", format!("fetch_net(/{mlen}) returned {n:?}, which overlaps something still held"), json!({"ops": ops}));
                        return;
                    }
                    if !model.free_contains(x) {
                        d.violation("subnet-outside-pool-or-blocked", format!("fetch_net(/{mlen}) returned {n:?}, not entirely free addresses of the pool"), json!({"ops": ops}));
                        return;
                    }
                    model.block(x);
                    model.held.push(x);
                    if returned_recently {
                        return_then_fetch = true;
                    }
                }
                None => {
                    if model.any_fit(size) {
                        d.violation("exhaustion-reported-although-block-fits", format!("fetch_net(/{mlen}) returned None although an aligned block fits into a free unit of {:?}", model.units.iter().take(4).collect::<Vec<_>>()), json!({"ops": ops}));
                        return;
                    }
                    d.tally("exhaustions_reported", 1);
                }
            }
        } else if r < 82 && !model.units.is_empty() {
            // redundant return: a subnet all of whose addresses are available already (never fetched, or
            // fetched and returned before). It changes nothing about who holds what, but it leaves the pool
            // as a union of overlapping ranges, which later fetches and blocks have to cut everywhere.
            let u = model.units[rng.gen_range(0..model.units.len())];
            let a = (u.0 + rng.gen_range(0..=(u.1 - u.0).min(600))) as u32;
            let rlen = *rng.pick(&[32u32, 31, 30, 28, 25, 24]);
            let x = ((a & mask_bits(rlen)) as u64, (a | !mask_bits(rlen)) as u64);
            let inside_pool = model.pool.iter().any(|p| p.0 <= x.0 && x.1 <= p.1);
            let touches_blocked = model.blocked.iter().any(|b| b.0 <= x.1 && x.0 <= b.1);
            if !inside_pool || touches_blocked || model.overlaps_held(x) {
                continue;
            }
            let n = Ipv4Net::new(ip(x.0 as u32), Ipv4Mask::from_bitcount(rlen));
            ops.push(format!("return_subnet {n:?} (all of it available already)"));
            if let Err(e) = catch(|| gen.return_subnet(n)) {
                let (msg, loc) = split_panic(&e);
                d.violation(format!("panic:{loc}"), format!("return_subnet panicked: {msg}"), json!({"ops": ops}));
                return;
            }
            model.units.push(x);
            returned_recently = true;
            d.tally("redundant_returns", 1);
        } else if !model.held.is_empty() {
            let i = rng.gen_range(0..model.held.len());
            let h = model.held.remove(i);
            if h.0 == h.1 && rng.chance(1, 2) {
                ops.push(format!("return_ip {}", ip(h.0 as u32)));
                gen.return_ip(ip(h.0 as u32));
            } else {
                let l = 32 - (h.1 - h.0 + 1).trailing_zeros();
                let n = Ipv4Net::new(ip(h.0 as u32), Ipv4Mask::from_bitcount(l));
                ops.push(format!("return_subnet {n:?}"));
                gen.return_subnet(n);
            }
            model.units.push(h);
            returned_recently = true;
        }
        d.tally("generator_operations", 1);
    }
    if fragmented && return_then_fetch {
        d.nontrivial(crate::fnv_str(&ops.join(";")));
    }
    if sample {
        d.sample(json!({"kind": "generator-history", "ops": ops.iter().take(30).collect::<Vec<_>>()}));
    }
}

fn dhcp_scenario(env: &Env, k: u64, case: u64, rng: &mut rand::rngs::SmallRng, d: &mut Delta, multi: Option<usize>) {
    d.evaluations += 1;
    let n = if multi.is_some() { rng.gen_range(1..=12usize) } else { rng.gen_range(1..=40usize) };
    let jitter = if multi.is_some() { 0 } else { *rng.pick(&[0u64, 1, 4]) };
    let dup = multi.is_none() && rng.chance(1, 2);
    let pool_start = 0x0A01_0001u32;
    let pool_size = (n * 2 + 2) as u32;
    let server_ip = 0x7B7B_7B7Bu32;
    let release_one = rng.chance(1, 2);
    let desc = json!({"kind": "dhcp", "runtime": multi.map(|w| format!("multi_thread({w})")).unwrap_or("current_thread paused".into()), "clients": n, "pool": format!("{}..={}", ip(pool_start), ip(pool_start + pool_size - 1)), "jitter_ms": jitter, "duplicate_one_frame_per_sender": dup, "release_one": release_one, "scenario": k, "case": case});
    let leases: Arc<Mutex<HashMap<usize, u32>>> = Arc::new(Mutex::new(HashMap::new()));
    let fut = {
        let leases = leases.clone();
        async move {
            let mut b = NetworkBuilder::new();
            if jitter > 0 {
                b = b.latency(Latency::variable(ms(0), ms(jitter)));
            }
            let net = b.build();
            let mut dup_done: HashMap<Mac, bool> = HashMap::new();
            let rec = Recorder::new(Box::new(move |f: &FrameRec| {
                if dup && f.kind == Kind::Ipv4 && !dup_done.get(&f.sender).copied().unwrap_or(false) {
                    dup_done.insert(f.sender, true);
                    return Verdict::Deliver { extra_delay: Duration::ZERO, copies: 2 };
                }
                Verdict::PASS
            }));
            net.set_verif_hook(rec.clone());
            let t0 = tokio::time::Instant::now();
            let log: Log = Arc::new(Mutex::new(vec![]));
            let table: IpTable<Recipient> = [("0.0.0.0/0", Recipient::new(0, None))].into_iter().collect();
            let mk = || Machine::new().with(Udp::new()).with(Ipv4::new(table.clone())).with(Pci::new([net.clone()])).with(Arp::new());
            let server = mk().with(DhcpServer::new(ip(server_ip), IpRange::new(ip(pool_start), ip(pool_start + pool_size - 1)))).arc();
            let mut machines = vec![server.clone()];
            let remaining = Arc::new(std::sync::atomic::AtomicUsize::new(n));
            let mut macs = vec![];
            for c in 0..n {
                let leases = leases.clone();
                let remaining = remaining.clone();
                let mut parts = AppParts::new(1 + c, log.clone(), t0);
                parts.body = Some(Box::new(move |machine, me, shutdown| {
                    Box::pin(async move {
                        let dhcp = machine.protocol::<DhcpClient>().unwrap();
                        let a = dhcp.ip_address().await;
                        leases.lock().unwrap().insert(c, a.to_u32());
                        if release_one && c == 0 {
                            // give the address back
                            let udp = machine.protocol::<Udp>().unwrap();
                            let eps = Endpoints::new(Endpoint::new(ip(0), 68), Endpoint::new(ip(server_ip), 67));
                            if let Ok(sess) = udp.open_for_sending(me, eps, machine.clone()).await {
                                let mut m = DhcpMessage::default();
                                m.msg_type = MessageType::Release;
                                m.your_ip = a;
                                let _ = sess.send(DhcpMessage::to_message(m).unwrap(), machine.clone());
                            }
                        }
                        if remaining.fetch_sub(1, std::sync::atomic::Ordering::SeqCst) == 1 {
                            tokio::time::sleep(ms(100)).await;
                            shutdown.shut_down_with_status(ExitStatus::Status(0));
                        }
                    })
                }));
                let m = mk().with(DhcpClient::new(ip(server_ip)));
                macs.push(m.protocol::<Pci>().unwrap().mac_addresses().next().unwrap());
                machines.push(with_app(m, 0, || parts).arc());
            }
            let status = run_internet_with_timeout(&machines, Duration::from_secs(if multi.is_some() { 8 } else { 60 })).await;
            // what does the pool offer now?
            let mut offered_after = vec![];
            {
                let srv = server.protocol::<DhcpServer>().unwrap();
                let mut g = srv.ip_generator.write().unwrap();
                while let Some(a) = g.fetch_ip() {
                    offered_after.push(a.to_u32());
                    if offered_after.len() > 200 {
                        break;
                    }
                }
            }
            (status, rec.snapshot(), macs, offered_after)
        }
    };
    let (status, frames, macs, offered_after) = match multi {
        None => run_paused(fut),
        Some(w) => run_multi(w, fut),
    };
    let got = leases.lock().unwrap().clone();
    d.tally("dhcp_clients", n as u64);
    d.tally(if multi.is_some() { "dhcp_runs_multi_thread" } else { "dhcp_runs_current_thread" }, 1);
    let witness = |extra: Value| json!({"scenario": desc, "status": format!("{status:?}"), "detail": extra});
    if got.len() != n {
        if multi.is_some() && status == ExitStatus::TimedOut {
            // wall-clock bound on a loaded machine: not a verdict
            d.inconclusive += 1;
            d.tally("dhcp_multi_thread_timeouts", 1);
            return;
        }
        d.violation("client-never-learned-its-address", format!("{} of {n} clients learned an address before the run ended with {:?}", got.len(), status), witness(json!({})));
        return;
    }
    // offers seen on the wire per destination tap
    let mut offers: HashMap<Mac, Vec<u32>> = HashMap::new();
    for f in frames.iter().filter(|f| f.kind == Kind::Ipv4 && f.bytes.len() > 28) {
        if let Ok(h) = Ipv4Header::from_bytes(f.bytes.iter().cloned()) {
            if h.protocol == 17 {
                if let Ok(m) = DhcpMessage::from_bytes(f.bytes[28..].iter().cloned()) {
                    if m.msg_type == MessageType::Offer {
                        if let Some(dst) = f.destination {
                            offers.entry(dst).or_default().push(m.your_ip.to_u32());
                        }
                    }
                }
            }
        }
    }
    let mut seen: HashMap<u32, usize> = HashMap::new();
    for (c, a) in &got {
        if *a < pool_start || *a >= pool_start + pool_size {
            d.violation("lease-outside-pool", format!("client {c} was leased {}, outside the pool", ip(*a)), witness(json!({})));
            return;
        }
        // an address the first client gave back may legitimately have been leased again
        if release_one && *c == 0 {
            continue;
        }
        if let Some(o) = seen.insert(*a, *c) {
            d.violation("lease-given-twice", format!("clients {o} and {c} both hold {}", ip(*a)), witness(json!({})));
            return;
        }
        if !offers.get(&macs[*c]).map(|v| v.contains(a)).unwrap_or(false) {
            d.violation("lease-not-offered-to-this-client", format!("client {c} believes its address is {} but no Offer with that address was sent to its tap (offers there: {:?})", ip(*a), offers.get(&macs[*c]).map(|v| v.iter().map(|x| ip(*x).to_string()).collect::<Vec<_>>())), witness(json!({})));
            return;
        }
    }
    // the pool must not offer anything that is still held, and must offer the released one again
    let still_held: Vec<u32> = got.iter().filter(|(c, _)| !(release_one && **c == 0)).map(|(_, a)| *a).collect();
    if let Some(a) = offered_after.iter().find(|a| still_held.contains(a)) {
        d.violation("pool-offers-held-address", format!("after the run the server's pool still offers {}, which a client holds", ip(*a)), witness(json!({})));
        return;
    }
    if release_one && multi.is_none() {
        let released = got[&0];
        // available again = still in the pool now, or already offered a second time during the run
        let times_offered = offers.values().flatten().filter(|a| **a == released).count();
        if !offered_after.contains(&released) && times_offered < 2 {
            d.violation("released-address-not-available-again", format!("client 0 released {} but the server's pool does not offer it again", ip(released)), witness(json!({})));
            return;
        }
        d.tally("releases_checked", 1);
    }
    if n >= 2 {
        d.nontrivial(crate::fnv_str(&desc.to_string()));
    }
    if case == 0 && k < 8 {
        d.sample(json!({"scenario": desc, "leases": got.iter().map(|(c, a)| format!("client {c}: {}", ip(*a))).take(6).collect::<Vec<_>>()}));
    }
    let _ = env;
}

fn run(env: &Env, k: u64, d: &mut Delta) {
    let mut rng = scenario_rng("C15", env.seed, k);
    if k % 3 == 2 && env.tier != crate::Tier::Tiny {
        for case in 0..env.tier.pick(6, 10) {
            let multi = if case % 3 == 2 { Some(*rng.pick(&[2usize, 4, 16])) } else { None };
            dhcp_scenario(env, k, case, &mut rng, d, multi);
        }
    } else {
        for i in 0..env.tier.pick3(450, 1900, 6) {
            generator_history(d, &mut rng, i == 0 && k < 2);
        }
    }
}
