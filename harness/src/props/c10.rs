//! C10 — IPv4 fragmentation produces a faithful partition of the datagram.

use crate::{catch, mix, scenario_rng, split_panic, Delta, Env, PropDef, RngExt};
use elvis_core::{
    protocols::ipv4::{
        fragmentation::{fragment, Fragments},
        ipv4_parsing::Ipv4Header,
        Ipv4Address,
    },
    Message,
};
use rand::Rng;
use serde_json::json;

pub static DEF: PropDef = PropDef {
    id: "C10",
    level: "exploration",
    total: |t| t.pick(384, 12800),
    run,
    rule: "random datagrams (payload 0..65515 biased to multiples of the per-MTU block size ±1, random payload bytes, all header fields random, DF set or clear, input itself optionally a middle fragment) pushed through chains of 1..4 decreasing MTUs in 68..65535 (all residues of (mtu-20) mod 8); the flattened result is checked against invariants stated in RFC 791 terms and against an independent reference cut computed by the harness; last 4 batches of thorough enumerate payload 0..2000 x MTU 68..120 exhaustively. Non-trivial = >=3 fragments and some MTU with (mtu-20) mod 8 != 0; distinct by (payload,mtu chain,DF,MF,offset) hash.",
    assumptions: &["input headers are self-consistent (total_length = 20 + payload length, offset+length within 13-bit offset range)"],
    may_exit_process: false,
    watchdog_s: 300,
    nt_floor: |t| t.pick(300, 10000),
};

pub fn make_header(rng: &mut impl Rng, payload_len: usize, df: bool, mf: bool, offset: u16) -> Ipv4Header {
    let mut flags = 0u8;
    if mf {
        flags |= 1;
    }
    if df {
        flags |= 2;
    }
    Ipv4Header {
        ihl: 5,
        type_of_service: (rng.gen::<u8>() & 0xfc).into(),
        total_length: (20 + payload_len) as u16,
        identification: rng.u16_biased(),
        fragment_offset: offset,
        flags: flags.into(),
        time_to_live: rng.u8_biased(),
        protocol: rng.u8_biased(),
        checksum: rng.gen(),
        source: Ipv4Address::from(rng.u32_biased()),
        destination: Ipv4Address::from(rng.u32_biased()),
    }
}

/// Independent reference: the payload lengths RFC 791's procedure yields for one
/// datagram of `payload` bytes at `mtu`.
fn reference_cut(payload: usize, mtu: usize) -> Vec<usize> {
    if payload + 20 <= mtu {
        return vec![payload];
    }
    let block = ((mtu - 20) / 8) * 8;
    let mut out = vec![];
    let mut rest = payload;
    while rest + 20 > mtu {
        out.push(block);
        rest -= block;
    }
    out.push(rest);
    out
}

struct Piece {
    header: Ipv4Header,
    body: Message,
}

#[allow(clippy::too_many_arguments)]
fn one_case(
    d: &mut Delta,
    rng: &mut impl Rng,
    payload_len: usize,
    mtus: &[u16],
    df: bool,
    mf: bool,
    offset: u16,
    sample: bool,
) {
    d.evaluations += 1;
    let payload = rng.bytes(payload_len);
    let header = make_header(rng, payload_len, df, mf, offset);
    let desc = json!({"payload_len": payload_len, "mtus": mtus, "df": df, "mf": mf, "offset_blocks": offset});
    let mut pieces = vec![Piece {
        header,
        body: Message::new(payload.clone()),
    }];
    // reference cut, stage by stage
    let mut ref_lens = vec![payload_len];
    let mut discarded = false;
    for &mtu in mtus {
        let mut next = vec![];
        let mut next_ref = vec![];
        for (p, rl) in pieces.into_iter().zip(ref_lens.iter()) {
            let fits = p.header.total_length <= mtu;
            let h = p.header;
            let b = p.body.clone();
            let r = catch(|| fragment(h, b, mtu));
            let r = match r {
                Ok(r) => r,
                Err(e) => {
                    let (msg, loc) = split_panic(&e);
                    d.violation(format!("panic:{loc}"), format!("fragment() panicked: {msg}"), desc.clone());
                    return;
                }
            };
            match r {
                Fragments::DontFragment((h2, b2)) => {
                    if !fits {
                        d.violation("passed-through-oversize", format!("a {}-byte datagram was passed through unchanged at MTU {mtu}", h.total_length), desc.clone());
                        return;
                    }
                    if h2 != p.header || b2 != p.body {
                        d.violation("fitting-datagram-changed", "a datagram that fits the MTU was modified".to_string(), desc.clone());
                        return;
                    }
                    next.push(Piece { header: h2, body: b2 });
                    next_ref.push(*rl);
                }
                Fragments::Discard => {
                    if fits || !df {
                        d.violation("wrong-discard", format!("Discard although fits={fits} DF={df}"), desc.clone());
                        return;
                    }
                    discarded = true;
                }
                Fragments::Fragmented(fs) => {
                    if fits {
                        d.violation("fragmented-fitting-datagram", "a datagram that fits was fragmented".to_string(), desc.clone());
                        return;
                    }
                    if df {
                        d.violation("fragmented-despite-DF", "a datagram that forbids fragmentation was fragmented".to_string(), desc.clone());
                        return;
                    }
                    next_ref.extend(reference_cut(*rl, mtu as usize));
                    for (fh, fb) in fs {
                        next.push(Piece { header: fh, body: fb });
                    }
                }
            }
        }
        pieces = next;
        ref_lens = next_ref;
        if discarded {
            break;
        }
    }
    if discarded {
        d.tally("discarded", 1);
        return;
    }
    let last_mtu = *mtus.last().unwrap() as usize;
    // invariants on the flattened list, relative to the original
    let orig = make_header_like(&pieces[0].header);
    let mut pos = 0usize;
    let n = pieces.len();
    let mut got_lens = vec![];
    for (i, p) in pieces.iter().enumerate() {
        let plen = p.body.len();
        got_lens.push(plen);
        let bytes = p.body.to_vec();
        let h = &p.header;
        let mut err: Option<(&str, String)> = None;
        if h.total_length as usize != 20 + plen {
            err = Some(("length-field", format!("fragment {i}: total_length {} but payload {} bytes", h.total_length, plen)));
        } else if h.total_length as usize > last_mtu {
            err = Some(("exceeds-mtu", format!("fragment {i}: total_length {} exceeds MTU {last_mtu}", h.total_length)));
        } else if (h.fragment_offset as usize) * 8 != (offset as usize) * 8 + pos {
            err = Some(("offset", format!("fragment {i}: offset field {} blocks, expected byte position {}", h.fragment_offset, offset as usize * 8 + pos)));
        } else if pos + plen > payload.len() || bytes != payload[pos..pos + plen] {
            err = Some(("content", format!("fragment {i}: payload is not bytes {}..{} of the original", pos, pos + plen)));
        } else if i + 1 < n && plen % 8 != 0 {
            err = Some(("unaligned-piece", format!("fragment {i} is not last but carries {plen} bytes (not a multiple of 8)")));
        } else {
            let want_mf = if i + 1 < n { true } else { mf };
            if h.flags.is_last_fragment() == want_mf {
                err = Some(("mf-flag", format!("fragment {i} of {n}: more-fragments flag is {} expected {}", !h.flags.is_last_fragment(), want_mf)));
            } else if h.flags.may_fragment() == df && n > 1 {
                err = Some(("df-flag", format!("fragment {i}: DF bit changed")));
            } else if h.ihl != 5
                || h.type_of_service != orig.type_of_service
                || h.identification != orig.identification
                || h.time_to_live != orig.time_to_live
                || h.protocol != orig.protocol
                || h.source != orig.source
                || h.destination != orig.destination
            {
                err = Some(("header-field-changed", format!("fragment {i}: a header field other than length/offset/MF differs from the original")));
            }
        }
        if let Some((sig, what)) = err {
            d.violation(sig, what, desc.clone());
            return;
        }
        pos += plen;
    }
    if pos != payload.len() {
        d.violation("coverage", format!("fragments cover {pos} of {} payload bytes", payload.len()), desc.clone());
        return;
    }
    if got_lens != ref_lens {
        d.violation(
            "differs-from-reference-cut",
            format!("fragment sizes {:?} differ from the RFC 791 procedure's {:?}", &got_lens[..got_lens.len().min(12)], &ref_lens[..ref_lens.len().min(12)]),
            desc.clone(),
        );
        return;
    }
    d.tally("fragments_checked", n as u64);
    if n >= 3 && mtus.iter().any(|m| (m - 20) % 8 != 0) {
        d.nontrivial(crate::fnv_str(&desc.to_string()));
    }
    if sample {
        d.sample(json!({"case": desc, "fragment_payload_lengths": got_lens.iter().take(16).collect::<Vec<_>>(), "fragments": n}));
    }
}

fn make_header_like(h: &Ipv4Header) -> Ipv4Header {
    *h
}

fn run(env: &Env, k: u64, d: &mut Delta) {
    let total = (DEF.total)(env.tier);
    let mut rng = scenario_rng("C10", env.seed, k);
    if env.tier == crate::Tier::Thorough && k + 4 >= total {
        // exhaustive small scope: payload 0..=2000 x MTU 68..=120, quarter each
        let q = k + 4 - total;
        for mtu in 68u16..=120 {
            if (mtu as u64) % 4 != q {
                continue;
            }
            for p in 0..=2000usize {
                one_case(d, &mut rng, p, &[mtu], false, false, 0, false);
            }
        }
        d.tally("exhaustive_small_scope_cases", 1);
        return;
    }
    let n = env.tier.pick3(420, 1250, 5);
    for i in 0..n {
        let chain_len = rng.gen_range(1..=4);
        let mut mtus: Vec<u16> = vec![];
        let mut hi = 65535u32;
        for _ in 0..chain_len {
            let m = match rng.gen_range(0..6) {
                0 => 68,
                1 => rng.gen_range(68..=130),
                2 => *rng.pick(&[576u32, 1500, 9000, 65535, 1499, 1501, 577]),
                _ => rng.gen_range(68..=hi.max(68)),
            }
            .min(hi)
            .max(68);
            mtus.push(m as u16);
            hi = m;
        }
        let first = mtus[0] as usize;
        let block = ((first - 20) / 8) * 8;
        let payload_len = match rng.gen_range(0..8) {
            0 => 0,
            1 => 65515,
            2 | 3 => {
                let mult = rng.gen_range(1..=6) * block;
                (mult as i64 + rng.gen_range(-1..=1)).clamp(0, 65515) as usize
            }
            4 => (first - 20) + rng.gen_range(0..3) - 1.min(first - 20),
            5 => rng.gen_range(0..=65515),
            _ => rng.gen_range(0..=6000),
        }
        .min(65515);
        let payload_len = crate::cap(payload_len);
        let df = rng.chance(1, 8);
        let mf = rng.chance(1, 4);
        // a datagram that is itself a non-final fragment carries whole 8-byte blocks
        let payload_len = if mf { payload_len & !7 } else { payload_len };
        // keep offset + length inside the 13-bit field
        let max_off = (8191usize).saturating_sub((payload_len + 7) / 8);
        let offset = if mf || rng.chance(1, 4) {
            rng.gen_range(0..=max_off.min(8191)) as u16
        } else {
            0
        };
        one_case(d, &mut rng, payload_len, &mtus, df, mf, offset, i == 0 && k < 3);
    }
    let _ = mix;
}
