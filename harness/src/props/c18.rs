//! C18 — with checksums enabled, emitted checksums are valid and corruption is caught.
//! Only meaningful in the `cs` build (elvis-core feature compute_checksum).

use crate::model::wire::{self, Ip4};
use crate::props::c08::{self, cs, elvis_ip4, etherparse_ip4, etherparse_tcp, etherparse_udp, gen_ip4, gen_tcp, gen_udp, report, TcpCase, UdpCase};
use crate::{catch, fnv_str, hex, scenario_rng, Delta, Env, PropDef, RngExt};
use elvis_core::protocols::{
    ipv4::{ipv4_parsing::Ipv4Header, Ipv4Address},
    tcp::{verif::TcpHeaderBuilder, TcpHeader},
    udp::{build_udp_header, UdpHeader},
};
use rand::Rng;
use serde_json::json;

pub static DEF: PropDef = PropDef {
    id: "C18",
    level: "exploration",
    total: |t| t.pick(512, 9600),
    run,
    rule: "compute_checksum build: for generated IPv4 headers, UDP datagrams and TCP segments (C08's generators: all field ranges, payloads even/odd/empty/maximal) the emitted checksum must verify under an independent RFC 1071 implementation (sum over header [+pseudo header +payload] including the checksum field folds to 0xFFFF) and equal the reference implementation's; the decoders must accept the reference packets; every single-bit flip and sampled double-bit flips of emitted packets that change the one's-complement sum must be rejected; plus constructed packets whose sum before complementing is 0xFFFF (one free 16-bit field solved for); plus live connections: C01's schedules (loss, duplication, reordering, timers, closes) on a real TCB pair, every segment entering the network (first transmissions, retransmissions, pure ACKs, SYN/FIN/RST) serialised and checked with the independent sum and the stack's own decoder. Non-trivial = distinct (protocol, payload parity/size class, flip class) tuple.",
    assumptions: &[
        "model/wire.rs::rfc1071 and etherparse are the independent references (cross-checked on every case)",
        "a UDP checksum of zero means 'no checksum' (RFC 768) and is not used as a reference-produced checksum",
    ],
    may_exit_process: false,
    watchdog_s: 900,
    nt_floor: |t| t.pick(100, 500),
};

fn ip_decode(b: &[u8]) -> Result<Ipv4Header, String> {
    Ipv4Header::from_bytes(b.iter().cloned()).map_err(|e| format!("{e}"))
}

fn ipv4(d: &mut Delta, rng: &mut impl Rng, force_ffff: bool) {
    d.evaluations += 1;
    let mut c = gen_ip4(rng);
    if force_ffff {
        // choose identification so that the sum of all other words is 0xFFFF
        c.v.id = 0;
        let partial = wire::ones_sum(&[&wire::pack_ipv4(&c.v, false)]);
        c.v.id = !partial;
        if wire::ones_sum(&[&wire::pack_ipv4(&c.v, false)]) != 0xFFFF {
            c.v.id = 0; // partial was 0xFFFF already
        }
    }
    let v: Ip4 = c.v;
    d.nontrivial(fnv_str(&format!("ip|{}|{}", force_ffff, c.class)));
    let r = catch(|| {
        let mut errs: Vec<(String, String)> = vec![];
        let enc = match elvis_ip4(&v).serialize() {
            Ok(b) => b,
            Err(e) => return vec![("ipv4:encode-failed".into(), format!("{e}"))],
        };
        if wire::rfc1071(&[&enc]) != 0 {
            errs.push(("ipv4:emitted-checksum-does-not-verify".into(), format!("header {} does not verify under RFC 1071", hex(&enc))));
        }
        let reference = etherparse_ip4(&v);
        if wire::rfc1071(&[&reference]) != 0 {
            errs.push(("reference-disagreement".into(), "etherparse IPv4 checksum does not verify under the hand-written RFC 1071".into()));
        }
        let sum_is_ffff = wire::ones_sum(&[&wire::pack_ipv4(&v, false)]) == 0xFFFF;
        if enc != reference && !sum_is_ffff {
            errs.push(("ipv4:checksum-differs-from-reference".into(), format!("elvis {} reference {}", hex(&enc), hex(&reference))));
        }
        if let Err(e) = ip_decode(&reference) {
            let cls = if sum_is_ffff { "sum-0xffff-checksum-0x0000" } else { "other" };
            errs.push((format!("ipv4:conforming-checksum-rejected:{cls}"), format!("decoder rejects the reference header {} : {e}", hex(&reference))));
        }
        // corruption: all single-bit flips, some double flips
        let base_sum = wire::ones_sum(&[&enc]);
        let mut flips: Vec<(usize, usize)> = (0..160).map(|i| (i, usize::MAX)).collect();
        for _ in 0..40 {
            flips.push((rng.gen_range(0..160), rng.gen_range(0..160)));
        }
        for (a, b) in flips {
            let mut m = enc.clone();
            m[a / 8] ^= 1 << (a % 8);
            if b != usize::MAX && b != a {
                m[b / 8] ^= 1 << (b % 8);
            }
            if wire::ones_sum(&[&m]) == base_sum || m == enc {
                continue;
            }
            if let Ok(h) = ip_decode(&m) {
                errs.push(("ipv4:corruption-accepted".into(), format!("bits {a},{b} flipped in {} and the decoder still returned {h:?}", hex(&enc))));
                break;
            }
        }
        errs
    });
    report(d, r, "ipv4", json!({"value": format!("{v:?}"), "constructed_sum_ffff": force_ffff}));
}

fn udp(d: &mut Delta, rng: &mut impl Rng, force_ffff: bool) {
    d.evaluations += 1;
    let mut c: UdpCase = gen_udp(rng);
    if c.payload.len() > 3000 {
        c.payload.truncate(3000 + c.payload.len() % 2); // keep bit-flip sweeps affordable; parity preserved
    }
    if force_ffff {
        c.sp = 0;
        let pkt = wire::pack_udp(c.src, c.sp, c.dst, c.dp, &c.payload, false);
        let partial = wire::ones_sum(&[&wire::pseudo(c.src, c.dst, 17, pkt.len() as u16 + c.payload.len() as u16), &pkt, &c.payload]);
        c.sp = !partial;
    }
    d.nontrivial(fnv_str(&format!("udp|{}|{}|{}", force_ffff, c.payload.len() % 2, c.payload.len().min(3))));
    let witness = json!({"src": c.src, "dst": c.dst, "sp": c.sp, "dp": c.dp, "payload_len": c.payload.len(), "constructed_sum_ffff": force_ffff});
    let (src, dst) = (Ipv4Address::new(c.src), Ipv4Address::new(c.dst));
    let r = catch(|| {
        let mut errs: Vec<(String, String)> = vec![];
        let hdr = match build_udp_header(src, c.sp, dst, c.dp, c.payload.iter().cloned(), c.payload.len()) {
            Ok(b) => b,
            Err(e) => return vec![("udp:encode-failed".into(), format!("{e}"))],
        };
        let len = (8 + c.payload.len()) as u16;
        let ps = wire::pseudo(c.src, c.dst, 17, len);
        if wire::rfc1071(&[&ps, &hdr, &c.payload]) != 0 {
            errs.push(("udp:emitted-checksum-does-not-verify".into(), format!("header {} with {} payload bytes does not verify", hex(&hdr), c.payload.len())));
        }
        let reference = etherparse_udp(&c);
        if hdr != reference {
            errs.push(("udp:checksum-differs-from-reference".into(), format!("elvis {} reference {}", hex(&hdr), hex(&reference))));
        }
        let mut pkt = reference.clone();
        pkt.extend_from_slice(&c.payload);
        if let Err(e) = UdpHeader::from_bytes_ipv4(pkt.iter().cloned(), pkt.len(), src, dst) {
            errs.push(("udp:conforming-checksum-rejected".into(), format!("decoder rejects the reference datagram: {e}")));
        }
        let mut own = hdr.clone();
        own.extend_from_slice(&c.payload);
        let base_sum = wire::ones_sum(&[&ps, &own]);
        let nbits = own.len() * 8;
        let mut flips: Vec<(usize, usize)> = if nbits <= 2048 { (0..nbits).map(|i| (i, usize::MAX)).collect() } else { (0..600).map(|_| (rng.gen_range(0..nbits), usize::MAX)).collect() };
        for _ in 0..60 {
            flips.push((rng.gen_range(0..nbits), rng.gen_range(0..nbits)));
        }
        for (a, b) in flips {
            let mut m = own.clone();
            m[a / 8] ^= 1 << (a % 8);
            if b != usize::MAX && b != a {
                m[b / 8] ^= 1 << (b % 8);
            }
            // the length field lives in the pseudo header too
            let mlen = u16::from_be_bytes([m[4], m[5]]);
            let _ = mlen;
            if wire::ones_sum(&[&ps, &m]) == base_sum || m == own {
                continue;
            }
            if UdpHeader::from_bytes_ipv4(m.iter().cloned(), m.len(), src, dst).is_ok() {
                errs.push(("udp:corruption-accepted".into(), format!("bits {a},{b} flipped in a {}-byte datagram and the decoder still accepted it", own.len())));
                break;
            }
        }
        errs
    });
    report(d, r, "udp", witness);
}

fn tcp(d: &mut Delta, rng: &mut impl Rng, k: u64, force_ffff: bool) {
    d.evaluations += 1;
    let mut c: TcpCase = gen_tcp(rng, k);
    if c.payload.len() > 3000 {
        c.payload.truncate(3000 + c.payload.len() % 2);
    }
    // the builder can only say URG with a pointer and ACK with a number
    if c.t.flags & 32 == 0 {
        c.t.urg = 0;
    }
    if c.t.flags & 16 == 0 {
        c.t.ack = 0;
    }
    if force_ffff {
        c.t.wnd = 0;
        let h = wire::pack_tcp(c.src, c.dst, &c.t, &c.payload, false);
        let partial = wire::ones_sum(&[&wire::pseudo(c.src, c.dst, 6, (20 + c.payload.len()) as u16), &h, &c.payload]);
        c.t.wnd = !partial;
    }
    d.nontrivial(fnv_str(&format!("tcp|{}|{}|{}|{}", force_ffff, c.t.flags, c.payload.len() % 2, c.payload.len().min(3))));
    let witness = json!({"tcp": format!("{:?}", c.t), "src": c.src, "dst": c.dst, "payload_len": c.payload.len(), "constructed_sum_ffff": force_ffff});
    let (src, dst) = (Ipv4Address::new(c.src), Ipv4Address::new(c.dst));
    let r = catch(|| {
        let mut errs: Vec<(String, String)> = vec![];
        let f = c.t.flags;
        let mut b = TcpHeaderBuilder::new(c.t.sp, c.t.dp, c.t.seq).wnd(c.t.wnd);
        if f & 16 != 0 {
            b = b.ack(c.t.ack);
        }
        if f & 8 != 0 {
            b = b.psh();
        }
        if f & 4 != 0 {
            b = b.rst();
        }
        if f & 2 != 0 {
            b = b.syn();
        }
        if f & 1 != 0 {
            b = b.fin();
        }
        if f & 32 != 0 {
            b = b.urg(c.t.urg);
        }
        let hdr = match b.build(src, dst, c.payload.iter().cloned(), c.payload.len()) {
            Ok(h) => h.serialize(),
            Err(e) => return vec![("tcp:encode-failed".into(), format!("{e}"))],
        };
        let ps = wire::pseudo(c.src, c.dst, 6, (20 + c.payload.len()) as u16);
        if wire::rfc1071(&[&ps, &hdr, &c.payload]) != 0 {
            errs.push(("tcp:emitted-checksum-does-not-verify".into(), format!("header {} with {} payload bytes does not verify", hex(&hdr), c.payload.len())));
        }
        let reference = etherparse_tcp(&c);
        let sum_is_ffff = wire::ones_sum(&[&ps, &wire::pack_tcp(c.src, c.dst, &c.t, &c.payload, false), &c.payload]) == 0xFFFF;
        if hdr != reference && !sum_is_ffff {
            errs.push(("tcp:checksum-differs-from-reference".into(), format!("elvis {} reference {}", hex(&hdr), hex(&reference))));
        }
        let mut pkt = reference.clone();
        pkt.extend_from_slice(&c.payload);
        if let Err(e) = TcpHeader::from_bytes(pkt.iter().cloned(), pkt.len(), src, dst) {
            let cls = if sum_is_ffff { "sum-0xffff-checksum-0x0000" } else { "other" };
            errs.push((format!("tcp:conforming-checksum-rejected:{cls}"), format!("decoder rejects the reference segment {}: {e}", hex(&reference))));
        }
        let mut own = hdr.clone();
        own.extend_from_slice(&c.payload);
        let base_sum = wire::ones_sum(&[&ps, &own]);
        let nbits = own.len() * 8;
        let mut flips: Vec<(usize, usize)> = if nbits <= 2048 { (0..nbits).map(|i| (i, usize::MAX)).collect() } else { (0..600).map(|_| (rng.gen_range(0..nbits), usize::MAX)).collect() };
        for _ in 0..60 {
            flips.push((rng.gen_range(0..nbits), rng.gen_range(0..nbits)));
        }
        for (a, bb) in flips {
            let mut m = own.clone();
            m[a / 8] ^= 1 << (a % 8);
            if bb != usize::MAX && bb != a {
                m[bb / 8] ^= 1 << (bb % 8);
            }
            if wire::ones_sum(&[&ps, &m]) == base_sum || m == own {
                continue;
            }
            if TcpHeader::from_bytes(m.iter().cloned(), m.len(), src, dst).is_ok() {
                errs.push(("tcp:corruption-accepted".into(), format!("bits {a},{bb} flipped in a {}-byte segment and the decoder still accepted it", own.len())));
                break;
            }
        }
        errs
    });
    report(d, r, "tcp", witness);
}

/// Segments as a live connection emits them (first transmissions, retransmissions, pure ACKs, SYN, FIN, RST):
/// one of C01's schedules on a real TCB pair, in half of them with closes; every segment that enters the
/// network is serialised and checked with the independent sum and with the stack's own decoder.
fn live_tcp(d: &mut Delta, rng: &mut rand::rngs::SmallRng, k: u64, case: u64) {
    use crate::props::c01::{apply, gen_params, Decision};
    use crate::tcbsim::{addr, flag_names, Pair};
    d.evaluations += 1;
    let mut pr = gen_params(rng, 120);
    if rng.chance(1, 2) {
        let at = rng.gen_range(0..=pr.decisions.len());
        pr.decisions.insert(at, Decision::Close(rng.gen_range(0..2)));
    }
    let mut p = Pair::new(pr.style, pr.iss_a, pr.iss_b, pr.mtu);
    let mut seen: std::collections::HashSet<u64> = Default::default();
    let mut checked = 0u64;
    let mut bad: Option<(String, String, serde_json::Value)> = None;
    let mut steps: Vec<String> = vec!["open".into()];
    let n = pr.decisions.len();
    for i in 0..=n + 12 {
        if i > 0 {
            if i <= n {
                apply(&mut p, pr.decisions[i - 1]);
                steps.push(pr.decisions[i - 1].show());
            } else {
                p.fair_round(101, true);
                steps.push("fair".into());
            }
        }
        if p.panic.is_some() {
            break; // C01/C17 judge panics of the TCB; here only emitted bytes are judged
        }
        for f in &p.net {
            if f.injected || !seen.insert(f.uid) {
                continue;
            }
            let from = 1 - f.to;
            let (src, dst) = (addr(from).to_u32().to_be_bytes(), addr(f.to).to_u32().to_be_bytes());
            let mut bytes = f.seg.header.serialize();
            bytes.extend_from_slice(&f.seg.text.to_vec());
            let pseudo = wire::pseudo(src, dst, 6, bytes.len() as u16);
            let sum = wire::ones_sum(&[&pseudo, &bytes]);
            let fl = u8::from(f.seg.header.ctl);
            if sum != 0xffff {
                bad = Some((
                    "tcp:live-segment-checksum-does-not-verify".into(),
                    format!("a [{}] segment of {} payload bytes emitted after step {} (`{}`) sums to {sum:#06x} over pseudo header and segment, not 0xffff", flag_names(fl), f.seg.text.len(), steps.len() - 1, steps.last().unwrap()),
                    json!({"segment_header": hex(&bytes[..20.min(bytes.len())]), "from": from}),
                ));
                break;
            }
            if let Err(e) = TcpHeader::from_bytes(bytes.iter().cloned(), bytes.len(), addr(from), addr(f.to)) {
                bad = Some(("tcp:live-segment-rejected-by-own-decoder".into(), format!("a [{}] segment emitted after step {} is rejected by TcpHeader::from_bytes: {e}", flag_names(fl), steps.len() - 1), json!({"segment_header": hex(&bytes[..20.min(bytes.len())])})));
                break;
            }
            checked += 1;
            d.nontrivial(fnv_str(&format!("live|{}|{}|{}", flag_names(fl), f.seg.text.len().min(3), f.seg.text.len() % 2)));
        }
        if bad.is_some() {
            break;
        }
    }
    d.tally("live_tcp_segments_checked", checked);
    d.tally("live_tcp_retransmitted_data_segments", p.sides[0].retransmitted_data_segments + p.sides[1].retransmitted_data_segments);
    if let Some((sig, what, w)) = bad {
        d.violation(sig, what, json!({"open": format!("{:?}", pr.style), "iss": [pr.iss_a, pr.iss_b], "mtu": pr.mtu, "steps": steps.iter().rev().take(40).rev().collect::<Vec<_>>(), "detail": w, "scenario": k, "case": case}));
    }
}

fn run(env: &Env, k: u64, d: &mut Delta) {
    if !cs() {
        // wrong build: nothing can be observed
        d.inconclusive += 1;
        return;
    }
    let mut rng = scenario_rng("C18", env.seed, k);
    let n = env.tier.pick(60, 120);
    for i in 0..n {
        let force = i % 4 == 3;
        ipv4(d, &mut rng, force);
        udp(d, &mut rng, force);
        tcp(d, &mut rng, k * 100 + i, force);
        if i % 4 == 0 {
            live_tcp(d, &mut rng, k, i);
        }
    }
    if k < 2 {
        let t = c08::gen_tcp(&mut rng, k);
        d.sample(json!({"protocol": "tcp", "fields": format!("{:?}", t.t), "payload_len": t.payload.len(), "reference_header": hex(&etherparse_tcp(&t))}));
    }
}
