//! Full-stack part of C14: malformed raw frames injected into live machines.
use crate::{Delta, Env};

pub fn inject(_env: &Env, _k: u64, _d: &mut Delta, _rng: &mut rand::rngs::SmallRng) {
    // filled in below once net.rs exists
}
