//! Full-stack part of C14: malformed raw frames injected into live machines.

use crate::model::wire::{self, Ip4, Tcp as WTcp};
use crate::net::*;
use crate::{Delta, Env, RngExt};
use elvis::applications::{ArpRouter, DhcpServer};
use elvis::ip_generator::IpRange;
use elvis_core::{
    network::{Mac, NetworkBuilder},
    protocols::{
        arp::{
            arp_parsing::ArpPacket,
            subnetting::{Ipv4Mask, Ipv4Net, SubnetInfo},
        },
        dhcp::{dhcp_client::DhcpClient, dhcp_parsing::DhcpMessage},
        ipv4::{Ipv4, Ipv4Address, Recipient},
        Arp, DnsServer, Endpoint, Endpoints, Pci, SocketAPI, Tcp, TcpListener, TcpStream, Udp,
    },
    run_internet_with_timeout, ExitStatus, IpTable, Machine, Message, Network,
};
use rand::Rng;
use serde_json::{json, Value};
use std::{
    any::TypeId,
    sync::{
        atomic::{AtomicBool, Ordering},
        Arc, Mutex,
    },
    time::Duration,
};

fn ip(x: u32) -> Ipv4Address {
    Ipv4Address::from(x)
}

const A: u32 = 0x0A00_0001;
const B: u32 = 0x0A00_0002;
const R0: u32 = 0x0A00_00FE;
const R1: u32 = 0x0A00_01FE;
const C: u32 = 0x0A00_0101;
const DHCP: u32 = 0x0A00_0043;
const MARK: [u8; 4] = [0xBA, 0xDB, 0xAD, 0x00];

#[derive(Clone, Debug)]
struct Inj {
    at_ms: u64,
    /// which protocol id the frame is addressed to: 0 = Ipv4, 1 = Arp
    proto: u8,
    dest: Option<Mac>,
    bytes: Vec<u8>,
    what: String,
}

fn gen_injections(rng: &mut impl Rng, macs: &[Mac]) -> Vec<Inj> {
    let n = rng.gen_range(20..=80);
    let mut out = vec![];
    for _ in 0..n {
        let target_ip = *rng.pick(&[A, B, R0, C, DHCP, 0x0103_0307, 0xFFFF_FFFF]);
        let dest = match rng.gen_range(0..4) {
            0 => None,
            1 => Some(Network::BROADCAST_MAC),
            _ => Some(*rng.pick(macs)),
        };
        let mut payload = MARK.to_vec();
        payload.extend_from_slice(&rng.bytes_between(0, 40));
        let ip4 = Ip4 { tos: 0, total_length: 0, id: rng.gen(), df: false, mf: false, offset: 0, ttl: 30, protocol: 17, src: 0x0A00_0066u32.to_be_bytes(), dst: target_ip.to_be_bytes() };
        let udp_to = |port: u16, pl: &[u8]| {
            let mut u = wire::pack_udp(ip4.src, 4444, ip4.dst, port, pl, false);
            u.extend_from_slice(pl);
            u
        };
        let wrap = |mut h: Ip4, body: Vec<u8>| {
            h.total_length = (20 + body.len()) as u16;
            let mut f = wire::pack_ipv4(&h, false);
            f.extend_from_slice(&body);
            f
        };
        let kind = rng.gen_range(0..22);
        let (proto, bytes, what): (u8, Vec<u8>, &str) = match kind {
            0 => (0, rng.bytes_between(0, 60), "random bytes as IPv4"),
            1 => {
                let f = wrap(ip4, udp_to(7000, &payload));
                (0, f[..rng.gen_range(0..20)].to_vec(), "truncated IPv4 header")
            }
            2 => {
                let mut f = wrap(ip4, udp_to(7000, &payload));
                f[0] = *rng.pick(&[0x55u8, 0x46, 0x40, 0x4f, 0x00]);
                (0, f, "bad version / IHL")
            }
            3 => {
                let mut f = wrap(ip4, udp_to(7000, &payload));
                let l: u16 = rng.gen_range(0..20);
                f[2..4].copy_from_slice(&l.to_be_bytes());
                (0, f, "IPv4 total_length < 20")
            }
            4 => {
                let mut f = wrap(ip4, udp_to(7000, &payload));
                f[6] |= 0x80;
                (0, f, "IPv4 reserved flag")
            }
            5 => {
                let mut u = udp_to(7000, &payload);
                let l = u16::from_be_bytes([u[4], u[5]]).wrapping_add(rng.gen_range(1..9));
                u[4..6].copy_from_slice(&l.to_be_bytes());
                (0, wrap(ip4, u), "UDP length mismatch")
            }
            6 => {
                let u = udp_to(7000, &payload);
                (0, wrap(ip4, u[..rng.gen_range(0..8)].to_vec()), "truncated UDP header")
            }
            7 => {
                let t = WTcp { sp: 4444, dp: 8080, seq: rng.gen(), ack: rng.gen(), flags: rng.gen_range(0..64), wnd: rng.gen(), urg: 0 };
                let mut seg = wire::pack_tcp(ip4.src, ip4.dst, &t, &payload, false);
                seg[12] = rng.gen_range(0..16) << 4;
                seg.extend_from_slice(&payload);
                let mut h = ip4;
                h.protocol = 6;
                (0, wrap(h, seg), "TCP bad data offset")
            }
            8 => {
                let t = WTcp { sp: 4444, dp: 8080, seq: 1, ack: 1, flags: 16, wnd: 100, urg: 0 };
                let seg = wire::pack_tcp(ip4.src, ip4.dst, &t, &[], false);
                let mut h = ip4;
                h.protocol = 6;
                (0, wrap(h, seg[..rng.gen_range(0..20)].to_vec()), "truncated TCP header")
            }
            9 => {
                let a = ArpPacket::new_request(rng.gen::<u64>() & 0xFFFF_FFFF_FFFF, ip(0x0A00_0066), ip(target_ip)).build();
                (1, a[..rng.gen_range(0..28)].to_vec(), "truncated ARP")
            }
            10 => {
                let mut a = ArpPacket::new_request(77, ip(0x0A00_0066), ip(target_ip)).build();
                a[6] = rng.gen();
                a[7] = *rng.pick(&[0u8, 3, 9, 255]);
                (1, a, "ARP bad operation")
            }
            11 => {
                // DHCP with bad type / non-UTF-8 names / truncated, to the DHCP server port
                let mut m = DhcpMessage::to_message(DhcpMessage::default()).unwrap().to_vec();
                match rng.gen_range(0..4) {
                    0 => m[29] = *rng.pick(&[0u8, 8, 9, 200, 255]),
                    1 => {
                        let n = m.len();
                        m[n - 3] = 0xff;
                    }
                    2 => m.truncate(rng.gen_range(0..m.len())),
                    _ => m[31] = 0x80,
                }
                let mut h = ip4;
                h.dst = DHCP.to_be_bytes();
                let mut u = wire::pack_udp(h.src, 68, h.dst, 67, &m, false);
                u.extend_from_slice(&m);
                (0, wrap(h, u), "malformed DHCP to the server")
            }
            12 => {
                // malformed DHCP towards a client (port 68, wildcard address)
                let mut m = DhcpMessage::to_message(DhcpMessage::default()).unwrap().to_vec();
                m[29] = *rng.pick(&[0u8, 9, 255]);
                let mut h = ip4;
                h.dst = [0, 0, 0, 0];
                let mut u = wire::pack_udp(h.src, 67, h.dst, 68, &m, false);
                u.extend_from_slice(&m);
                (0, wrap(h, u), "malformed DHCP to a client")
            }
            13 => {
                // malformed DNS query to the authoritative server
                let mut q = vec![0x12, 0x34, 0, 0, 0, 0, 0, 0, 0, 0, 0, 0];
                match rng.gen_range(0..3) {
                    0 => q.extend_from_slice(b"nam"),
                    1 => q.extend_from_slice(&[0xff, 0xfe, b' ', 0, 1, 0, 1, 0xff, b' ', 0, 1, 0, 1, 0, 0, 0, 0, 0, 4, 1, 2, 3, 4]),
                    _ => q.extend_from_slice(b"x \0\x01\0\x01x \0\x01\0\x01\0\0\0\0\xff\xff"),
                }
                let mut h = ip4;
                h.dst = [1, 3, 3, 7];
                let mut u = wire::pack_udp(h.src, 5555, h.dst, 53, &q, false);
                u.extend_from_slice(&q);
                (0, wrap(h, u), "malformed DNS query")
            }
            14 => {
                // decodable header, TTL 0 or 1, for another subnet: goes through the router
                let mut h = ip4;
                h.ttl = *rng.pick(&[0u8, 1]);
                h.dst = C.to_be_bytes();
                (0, wrap(h, udp_to(7000, &payload)), "TTL 0/1 through the router")
            }
            20 | 21 => {
                // a fragment whose data ends at, just below or just beyond the largest possible datagram
                // (offset near 8191 blocks; first or last fragment flag; every length bookkeeping value near 2^16)
                let fo: u16 = 8191 - rng.gen_range(0..4u16);
                let end: i64 = 65535 + rng.gen_range(-45i64..=12);
                let len = (end - fo as i64 * 8).clamp(1, 90) as usize;
                let mut h = ip4;
                h.offset = fo;
                h.mf = rng.gen::<bool>();
                h.id = rng.gen_range(0..3);
                let body = rng.bytes(len);
                (0, wrap(h, body), "fragment ending around the 64 KiB limit")
            }
            16..=19 => {
                // compound mutation: one to three header fields wrong AT ONCE and/or the frame cut or
                // extended, so that fields disagree with each other and with the bytes that arrived.
                // The payload does not carry the marker: such frames are judged on crashes only.
                let pl = rng.bytes_between(0, 40);
                let mut f = if rng.chance(1, 4) {
                    let t = WTcp { sp: 4444, dp: 8080, seq: rng.gen(), ack: rng.gen(), flags: rng.gen_range(0..64), wnd: rng.gen(), urg: 0 };
                    let mut seg = wire::pack_tcp(ip4.src, ip4.dst, &t, &pl, false);
                    seg.extend_from_slice(&pl);
                    let mut h = ip4;
                    h.protocol = 6;
                    wrap(h, seg)
                } else {
                    wrap(ip4, udp_to(*rng.pick(&[7000u16, 67, 68, 53]), &pl))
                };
                let actual = f.len() as u16;
                for _ in 0..rng.gen_range(1..=3) {
                    match rng.gen_range(0..8) {
                        0 => {
                            if !f.is_empty() {
                                f[0] = 0x40 | rng.gen_range(0..16u8);
                            }
                        }
                        1 => {
                            let r: u16 = rng.gen();
                            let l = *rng.pick(&[0u16, 19, 20, 24, 28, 40, 60, actual.wrapping_sub(1), actual.wrapping_add(1), 0xffff, r]);
                            if f.len() >= 4 {
                                f[2..4].copy_from_slice(&l.to_be_bytes());
                            }
                        }
                        2 => f.truncate(rng.gen_range(0..=f.len())),
                        3 => {
                            if f.len() >= 8 {
                                f[6] = rng.gen::<u8>() & 0x7f;
                                f[7] = rng.gen();
                            }
                        }
                        4 => {
                            if f.len() >= 10 {
                                f[9] = *rng.pick(&[6u8, 17, 1, 0, 255]);
                            }
                        }
                        5 => {
                            if f.len() >= 26 {
                                let r: u16 = rng.gen();
                                let l = *rng.pick(&[0u16, 7, 8, 9, actual.wrapping_sub(21), actual.wrapping_sub(19), 0xffff, r]);
                                f[24..26].copy_from_slice(&l.to_be_bytes());
                            }
                        }
                        6 => {
                            if f.len() >= 33 {
                                f[32] = rng.gen_range(0..16u8) << 4;
                            }
                        }
                        _ => f.extend_from_slice(&rng.bytes_between(0, 64)),
                    }
                }
                (0, f, "compound header mutation")
            }
            _ => {
                let mut f = wrap(ip4, udp_to(7000, &payload));
                for _ in 0..rng.gen_range(1..4) {
                    let i = rng.gen_range(0..f.len().min(28));
                    f[i] ^= 1 << rng.gen_range(0..8);
                }
                (0, f, "bit flips in IPv4/UDP headers")
            }
        };
        out.push(Inj { at_ms: rng.gen_range(0..400), proto, dest, bytes, what: what.to_string() });
    }
    out.sort_by_key(|i| i.at_ms);
    out
}

pub fn inject(env: &Env, k: u64, d: &mut Delta, rng: &mut rand::rngs::SmallRng) {
    for case in 0..env.tier.pick(3, 5) {
        one(env, k, case, d, rng);
    }
}

fn one(_env: &Env, k: u64, case: u64, d: &mut Delta, rng: &mut rand::rngs::SmallRng) {
    d.evaluations += 1;
    let with_dns = rng.chance(1, 2);
    let seed: u64 = rng.gen();
    let udp_log: Log = Arc::new(Mutex::new(vec![]));
    let tcp_bytes: Arc<Mutex<Vec<u8>>> = Arc::new(Mutex::new(vec![]));
    let injected: Arc<Mutex<Vec<Inj>>> = Arc::new(Mutex::new(vec![]));
    let n_udp = 20usize;
    let n_routed = 5usize;
    let tcp_total = 20 * 500usize;
    crate::set_context(&json!({"kind": "C14 raw frame injection", "scenario": k, "case": case, "injection_seed": seed, "dns_server_present": with_dns}));
    let (status, frames) = {
        let udp_log = udp_log.clone();
        let tcp_bytes = tcp_bytes.clone();
        let injected = injected.clone();
        run_paused(async move {
            let n0 = NetworkBuilder::new().mtu(1500).build();
            let n1 = NetworkBuilder::new().mtu(1500).build();
            let rec = Recorder::passive();
            n0.set_verif_hook(rec.clone());
            n1.set_verif_hook(rec.clone());
            let t0 = tokio::time::Instant::now();
            let done = Arc::new(AtomicBool::new(false));
            let host = |addr: u32, net: &Arc<Network>, gw: u32| {
                Machine::new()
                    .with(Udp::new())
                    .with(Tcp::new())
                    .with(Ipv4::new([(ip(addr), Recipient::new(0, None)), (ip(0), Recipient::new(0, None))].into_iter().collect()))
                    .with(Pci::new([net.clone()]))
                    .with(SocketAPI::new(Some(ip(addr))))
                    .with(Arp::new().preconfig_subnet(ip(addr), SubnetInfo { mask: Ipv4Mask::from_bitcount(24), default_gateway: ip(gw) }))
            };
            let mut machines: Vec<Arc<Machine>> = vec![];
            // A: sender of legitimate traffic, ends the run
            {
                let done = done.clone();
                let mut parts = AppParts::new(0, udp_log.clone(), t0);
                parts.body = Some(Box::new(move |machine, me, shutdown| {
                    Box::pin(async move {
                        let udp = machine.protocol::<Udp>().unwrap();
                        let to_b = udp.open_for_sending(me, Endpoints::new(Endpoint::new(ip(A), 6000), Endpoint::new(ip(B), 7000)), machine.clone()).await;
                        let to_c = udp.open_for_sending(me, Endpoints::new(Endpoint::new(ip(A), 6001), Endpoint::new(ip(C), 7000)), machine.clone()).await;
                        let mut stream = TcpStream::connect(Endpoint::new(ip(B), 8080), machine.clone()).await.ok();
                        for i in 0..20u8 {
                            if let Ok(s) = &to_b {
                                let _ = s.send(Message::new(vec![0x60, i, i, i]), machine.clone());
                            }
                            if (i as usize) < 5 {
                                if let Ok(s) = &to_c {
                                    let _ = s.send(Message::new(vec![0x61, i, i, i]), machine.clone());
                                }
                            }
                            if let Some(st) = stream.as_mut() {
                                let _ = st.write(vec![i; 500]).await;
                            }
                            tokio::time::sleep(ms(20)).await;
                        }
                        // wait for B to have everything (bounded)
                        for _ in 0..400 {
                            if done.load(Ordering::SeqCst) {
                                break;
                            }
                            tokio::time::sleep(ms(25)).await;
                        }
                        tokio::time::sleep(ms(300)).await;
                        shutdown.shut_down_with_status(ExitStatus::Status(7));
                        tokio::time::sleep(Duration::from_secs(100_000)).await;
                        drop(stream);
                    })
                }));
                machines.push(with_app(host(A, &n0, R0), 0, || parts).arc());
            }
            // B: UDP recorder + TCP reader
            {
                let tcp_bytes = tcp_bytes.clone();
                let done = done.clone();
                let mut parts = AppParts::new(1, udp_log.clone(), t0);
                parts.setup = Some(Box::new(move |machine, me| {
                    Box::pin(async move {
                        let udp = machine.protocol::<Udp>().unwrap();
                        udp.listen(me, Endpoint::new(ip(B), 7000), machine.clone()).unwrap();
                        udp.listen(me, Endpoint::new(ip(0xFFFF_FFFF), 7000), machine.clone()).unwrap();
                    })
                }));
                parts.body = Some(Box::new(move |machine, _me, _shutdown| {
                    Box::pin(async move {
                        if let Ok(mut l) = TcpListener::bind(Endpoint::new(ip(B), 8080), machine.clone()).await {
                            if let Ok(mut s) = l.accept().await {
                                while tcp_bytes.lock().unwrap().len() < tcp_total {
                                    match s.read().await {
                                        Ok(b) => tcp_bytes.lock().unwrap().extend_from_slice(&b),
                                        Err(_) => break,
                                    }
                                }
                                done.store(true, Ordering::SeqCst);
                                tokio::time::sleep(Duration::from_secs(100_000)).await;
                                drop(s);
                            }
                        }
                    })
                }));
                machines.push(with_app(host(B, &n0, R0), 0, || parts).arc());
            }
            // C behind the router
            {
                let mut parts = AppParts::new(2, udp_log.clone(), t0);
                parts.setup = Some(Box::new(move |machine, me| {
                    Box::pin(async move {
                        let udp = machine.protocol::<Udp>().unwrap();
                        udp.listen(me, Endpoint::new(ip(C), 7000), machine.clone()).unwrap();
                    })
                }));
                machines.push(with_app(host(C, &n1, R1), 0, || parts).arc());
            }
            // router
            {
                let rt: IpTable<(Option<Ipv4Address>, u32)> = [
                    (Ipv4Net::new(ip(0x0A00_0000), Ipv4Mask::from_bitcount(24)), (None, 0u32)),
                    (Ipv4Net::new(ip(0x0A00_0100), Ipv4Mask::from_bitcount(24)), (None, 1u32)),
                ]
                .into_iter()
                .collect();
                machines.push(
                    Machine::new()
                        .with(Pci::new([n0.clone(), n1.clone()]))
                        .with(Ipv4::new([(ip(R0), Recipient::new(0, None)), (ip(R1), Recipient::new(1, None))].into_iter().collect()))
                        .with(Arp::new())
                        .with(ArpRouter::new(rt, vec![ip(R0), ip(R1)]))
                        .arc(),
                );
            }
            // DHCP server and one client
            let table: IpTable<Recipient> = [("0.0.0.0/0", Recipient::new(0, None))].into_iter().collect();
            machines.push(Machine::new().with(Udp::new()).with(Ipv4::new(table.clone())).with(Pci::new([n0.clone()])).with(Arp::new()).with(DhcpServer::new(ip(DHCP), IpRange::new(ip(0x0A00_0080), ip(0x0A00_00A0)))).arc());
            machines.push(Machine::new().with(Udp::new()).with(Ipv4::new(table.clone())).with(Pci::new([n0.clone()])).with(Arp::new()).with(DhcpClient::new(ip(DHCP))).arc());
            if with_dns {
                machines.push(
                    Machine::new()
                        .with(Udp::new())
                        .with(Tcp::new())
                        .with(Ipv4::new(table.clone()))
                        .with(Pci::new([n0.clone()]))
                        .with(Arp::new())
                        .with(SocketAPI::new(Some(Ipv4Address::DNS_AUTH)))
                        .with(DnsServer::new(50))
                        .arc(),
                );
            }
            // attacker
            {
                let pci = Pci::new([n0.clone()]);
                let macs: Vec<Mac> = n0.verif_taps();
                let mut r2 = <rand::rngs::SmallRng as rand::SeedableRng>::seed_from_u64(seed);
                let plan = gen_injections(&mut r2, &macs);
                *injected.lock().unwrap() = plan.clone();
                let mut parts = AppParts::new(9, udp_log.clone(), t0);
                parts.body = Some(Box::new(move |machine, _me, _shutdown| {
                    Box::pin(async move {
                        let tap = machine.protocol::<Pci>().unwrap().open(0);
                        let mut now = 0;
                        for inj in plan {
                            if inj.at_ms > now {
                                tokio::time::sleep(ms(inj.at_ms - now)).await;
                                now = inj.at_ms;
                            }
                            let proto = if inj.proto == 0 { TypeId::of::<Ipv4>() } else { TypeId::of::<Arp>() };
                            let _ = tap.send_pci(Message::new(inj.bytes.clone()), inj.dest, proto);
                        }
                    })
                }));
                machines.push(with_app(Machine::new().with(pci), 0, || parts).arc());
            }
            let status = run_internet_with_timeout(&machines, Duration::from_secs(30)).await;
            (status, rec.snapshot())
        })
    };
    let inj = injected.lock().unwrap().clone();
    let events = udp_log.lock().unwrap().clone();
    let tcp = tcp_bytes.lock().unwrap().clone();
    d.tally("frames_injected", inj.len() as u64);
    d.evaluations += inj.len() as u64;
    d.tally("frames_on_wire_during_injection_runs", frames.len() as u64);
    for i in &inj {
        d.saw("injected_kinds", i.what.clone());
        d.nontrivial(crate::fnv_str(&format!("{}|{}|{:?}", i.what, i.bytes.len().min(40), i.dest.is_some())));
    }
    let witness = |extra: Value| json!({"scenario": k, "case": case, "injection_seed": seed, "returned": format!("{status:?}"), "injected": inj.iter().map(|i| format!("{}ms {} -> {:?} {}", i.at_ms, i.what, i.dest, crate::hex(&i.bytes[..i.bytes.len().min(48)]))).collect::<Vec<_>>(), "detail": extra});
    // nothing carrying the attacker's marker may reach an application through a header that cannot decode
    for e in &events {
        if e.payload.len() >= 4 && e.payload[..4] == MARK {
            // only the "TTL" and pure bit-flip classes can legitimately decode; find the injected frame it came from
            // (payloads may coincide, e.g. the bare 4-byte marker: the delivery is explained as soon as ONE
            // injected frame with that payload is of a class that can decode)
            let cands: Vec<&Inj> = inj.iter().filter(|i| i.bytes.len() >= 32 && i.bytes.ends_with(&e.payload)).collect();
            let legit = cands.iter().any(|i| i.what.contains("TTL") || i.what.contains("bit flips"));
            let src = cands.first().copied();
            if !legit {
                d.violation("malformed-frame-reached-application", format!("an application on machine {} received the payload of an injected frame ({})", e.machine, src.map(|i| i.what.clone()).unwrap_or("unidentified".into())), witness(json!({"delivered_payload": crate::hex(&e.payload), "delivered_to_machine": e.machine})));
                return;
            }
        }
    }
    if status != ExitStatus::Status(7) {
        d.violation("run-did-not-end-as-scripted", format!("with malformed frames on the wire the run returned {status:?} instead of the scripted Status(7)"), witness(json!({"tcp_bytes": tcp.len()})));
        return;
    }
    let b_got: Vec<&DemuxEvent> = events.iter().filter(|e| e.machine == 1 && e.payload.first() == Some(&0x60)).collect();
    let c_got: Vec<&DemuxEvent> = events.iter().filter(|e| e.machine == 2 && e.payload.first() == Some(&0x61)).collect();
    if b_got.len() != n_udp || c_got.len() != n_routed {
        d.violation("legitimate-datagrams-disturbed", format!("B received {} of {n_udp} and C {} of {n_routed} legitimate datagrams", b_got.len(), c_got.len()), witness(json!({})));
        return;
    }
    let want: Vec<u8> = (0..20u8).flat_map(|i| vec![i; 500]).collect();
    if tcp != want {
        d.violation("legitimate-tcp-stream-disturbed", format!("the TCP stream arrived as {} bytes (expected {}), equal prefix {}", tcp.len(), want.len(), tcp.iter().zip(want.iter()).take_while(|(a, b)| a == b).count()), witness(json!({})));
        return;
    }
    d.tally("injection_runs_survived", 1);
    if case == 0 && k < 8 {
        d.sample(json!({"kind": "injection run", "injected_frames": inj.len(), "first": inj.iter().take(5).map(|i| format!("{} {}", i.what, crate::hex(&i.bytes[..i.bytes.len().min(32)]))).collect::<Vec<_>>(), "returned": format!("{status:?}")}));
    }
}
