//! C14 — malformed input is rejected with an error, never with a crash.
//!
//! Part 1 (in-process, catch_unwind): every packet decoder and its accessor
//! functions on random / truncated / mutated byte strings, and the NDL parser
//! on mutated texts. Part 2 (full stack, worker process may die): raw frames
//! injected into live machines — see `inject` below.

use crate::{catch, fnv_str, hex, scenario_rng, split_panic, Delta, Env, PropDef, RngExt};
use elvis_core::protocols::{
    arp::arp_parsing::ArpPacket,
    dhcp::dhcp_parsing::{DhcpMessage, MessageType},
    dns::dns_parsing::DnsMessage,
    ipv4::{ipv4_parsing::Ipv4Header, Ipv4Address},
    tcp::TcpHeader,
    udp::UdpHeader,
};
use rand::Rng;
use serde_json::json;
use std::path::PathBuf;

pub static DEF: PropDef = PropDef {
    id: "C14",
    level: "exploration",
    total: |t| t.pick(64, 4800),
    run,
    rule: "decoder inputs: uniformly random bytes of length 0..120, every truncation of valid packets, valid packets with one field pushed to an extreme (IHL, total_length 0..19, TTL 0, data offset, DHCP type 0 and 8..255, rdlength, non-UTF-8 / unterminated names) or random bit flips, and compound mutations (2..4 of truncation, bit flip, byte or 16-bit field set to an extreme, extension applied to one packet); each of Ipv4Header/UdpHeader/TcpHeader/ArpPacket/DnsMessage/DhcpMessage::from_bytes plus DnsQuestion::query_name and MessageType::try_from must return, not unwind, and so must the next thing the stack does with an accepted header (re-serialise it, strip header.ihl*4 / 8 / 20 bytes from the frame as Ipv4/Udp/Tcp::demux do). NDL texts: the repository's .ndl/.txt files mutated by token insertion/deletion/duplication, truncation at every kind of position, indentation shifts (tabs, 4 spaces, mixed), keyword swaps incl. IPtype, quotes/brackets/backslashes, CRLF and non-ASCII; core_parser must return Ok or Err. Full-stack part: malformed raw frames (17 single-fault classes, one of them fragments whose data ends within -45..+12 octets of the 64 KiB datagram limit, plus compound mutations: one to three of version/IHL, total length, fragment word, protocol, UDP length, TCP data offset, truncation, extension applied together, so that fields disagree with each other and with the bytes that arrived) injected with PciSession::send_pci into running hosts, a router and DHCP/DNS servers must crash nothing, reach no recorder application and leave a concurrent legitimate UDP exchange and TCP connection unaffected (run ends with the scripted status). Non-trivial = distinct (decoder or parser, outcome variant, mutation kind) tuple.",
    assumptions: &["a panic caught by catch_unwind in the harness is what the simulator's panic hook would turn into process exit"],
    may_exit_process: true,
    watchdog_s: 600,
    nt_floor: |t| t.pick(40, 60),
};

fn valid_packets(rng: &mut impl Rng) -> Vec<(&'static str, Vec<u8>)> {
    use crate::model::wire;
    let ip = crate::props::c08::gen_ip4(rng).v;
    let u = crate::props::c08::gen_udp(rng);
    let kk: u64 = rng.gen();
    let t = crate::props::c08::gen_tcp(rng, kk);
    let mut udp = wire::pack_udp(u.src, u.sp, u.dst, u.dp, &u.payload[..u.payload.len().min(40)], false);
    udp.extend_from_slice(&u.payload[..u.payload.len().min(40)]);
    let mut tcp = wire::pack_tcp(t.src, t.dst, &t.t, &[], false);
    tcp.extend_from_slice(&t.payload[..t.payload.len().min(40)]);
    let arp = ArpPacket::new_request(rng.gen::<u64>() & 0xFFFF_FFFF_FFFF, Ipv4Address::from(rng.gen::<u32>()), Ipv4Address::from(rng.gen::<u32>())).build();
    let dns = {
        let mut v = vec![];
        v.extend_from_slice(&rng.gen::<u16>().to_be_bytes());
        v.extend_from_slice(&[0, 0, 0, 0, 0, 0, 0, 0, 0, 0]);
        v.extend_from_slice(b"example.com ");
        v.extend_from_slice(&[0, 1, 0, 1]);
        v.extend_from_slice(b"example.com ");
        v.extend_from_slice(&[0, 1, 0, 1, 0, 0, 0, 9, 0, 4, 1, 2, 3, 4]);
        v
    };
    let dhcp = DhcpMessage::to_message(DhcpMessage::default()).unwrap().to_vec();
    vec![("ipv4", wire::pack_ipv4(&ip, false)), ("udp", udp), ("tcp", tcp), ("arp", arp), ("dns", dns), ("dhcp", dhcp)]
}

fn decode_all(which: &str, b: &[u8]) -> Result<String, String> {
    let b = b.to_vec();
    let which = which.to_string();
    catch(move || {
        let a = Ipv4Address::new([1, 2, 3, 4]);
        let z = Ipv4Address::new([4, 3, 2, 1]);
        let mut outcome = String::new();
        let mut push = |name: &str, ok: bool, err: String| {
            if which == "all" || which == name {
                outcome.push_str(&format!("{name}:{};", if ok { "Ok".to_string() } else { err }));
            }
        };
        if which == "all" || which == "ipv4" {
            let r = Ipv4Header::from_bytes(b.iter().cloned());
            if let Ok(h) = &r {
                // what the stack does next with an accepted header
                let _ = h.serialize();
                let _ = format!("{h:?}");
                // Ipv4::demux strips the header it has just accepted
                let mut m = elvis_core::Message::new(b.clone());
                m.remove_front(h.ihl as usize * 4);
            }
            push("ipv4", r.is_ok(), r.err().map(|e| format!("{e:?}")).unwrap_or_default().split('{').next().unwrap_or("").trim().to_string());
        }
        if which == "all" || which == "udp" {
            let r = UdpHeader::from_bytes_ipv4(b.iter().cloned(), b.len(), a, z);
            if r.is_ok() {
                // Udp::demux strips the header it has just accepted
                let mut m = elvis_core::Message::new(b.clone());
                m.remove_front(8);
            }
            push("udp", r.is_ok(), r.err().map(|e| format!("{e:?}")).unwrap_or_default().split('{').next().unwrap_or("").trim().to_string());
        }
        if which == "all" || which == "tcp" {
            let r = TcpHeader::from_bytes(b.iter().cloned(), b.len(), a, z);
            if let Ok(h) = &r {
                let _ = h.serialize();
                let _ = format!("{h:?}");
                // Tcp::demux strips the header it has just accepted
                let mut m = elvis_core::Message::new(b.clone());
                m.remove_front(20);
            }
            push("tcp", r.is_ok(), r.err().map(|e| format!("{e:?}")).unwrap_or_default().split('{').next().unwrap_or("").trim().to_string());
        }
        if which == "all" || which == "arp" {
            let r = ArpPacket::from_bytes(b.iter().cloned());
            if let Ok(p) = &r {
                let _ = p.build();
            }
            push("arp", r.is_ok(), r.err().map(|e| format!("{e:?}")).unwrap_or_default());
        }
        if which == "all" || which == "dns" {
            let r = DnsMessage::from_bytes(b.iter().cloned());
            let ok = r.is_ok();
            if let Ok(m) = r {
                // the server's next steps
                let _ = m.question.query_name();
                let _ = String::from_utf8_lossy(&m.answer.name).to_string();
                let _ = m.to_message();
            }
            push("dns", ok, "Err".into());
        }
        if which == "all" || which == "dhcp" {
            let r = DhcpMessage::from_bytes(b.iter().cloned());
            let ok = r.is_ok();
            if let Ok(m) = r {
                let _ = DhcpMessage::to_message(m);
            }
            push("dhcp", ok, "Err".into());
        }
        outcome
    })
}

fn decoders(d: &mut Delta, rng: &mut impl Rng, n: usize) {
    for i in 0..n {
        let valids = valid_packets(rng);
        let (name, base) = valids[rng.gen_range(0..valids.len())].clone();
        let kind = rng.gen_range(0..10);
        let (bytes, which, kname): (Vec<u8>, &str, &str) = match kind {
            0 => {
                let len = rng.gen_range(0..120);
                (rng.bytes(len), "all", "random")
            }
            1 => (base[..rng.gen_range(0..=base.len())].to_vec(), name, "truncation"),
            2 => {
                let mut b = base.clone();
                for _ in 0..rng.gen_range(1..4) {
                    let i = rng.gen_range(0..b.len());
                    b[i] ^= 1 << rng.gen_range(0..8);
                }
                (b, name, "bitflips")
            }
            3 => {
                let mut b = base.clone();
                let i = rng.gen_range(0..b.len());
                b[i] = *rng.pick(&[0u8, 0xff, 0x80, 0x7f]);
                (b, name, "byte-extreme")
            }
            4 => {
                // targeted field extremes
                let mut b = base.clone();
                match name {
                    "ipv4" => match rng.gen_range(0..4) {
                        0 => b[0] = 0x40 | rng.gen_range(0..16),
                        1 => {
                            let l: u16 = rng.gen_range(0..20);
                            b[2..4].copy_from_slice(&l.to_be_bytes());
                        }
                        2 => b[8] = 0,
                        _ => b[6] |= 0x80,
                    },
                    "tcp" => b[12] = rng.gen(),
                    "udp" => {
                        let l: u16 = *rng.pick(&[0u16, 7, 8, 0xffff]);
                        b[4..6].copy_from_slice(&l.to_be_bytes());
                    }
                    "dhcp" => b[29] = *rng.pick(&[0u8, 8, 9, 0x80, 0xff]),
                    "dns" => {
                        let n = b.len();
                        let l: u16 = *rng.pick(&[0u16, 5, 0xffff, 0x8000]);
                        b[n - 6..n - 4].copy_from_slice(&l.to_be_bytes());
                    }
                    _ => b[7] = rng.gen(),
                }
                (b, name, "field-extreme")
            }
            5 => {
                // non-UTF-8 / unterminated strings
                let mut b = base.clone();
                match name {
                    "dhcp" => {
                        let n = b.len();
                        if rng.chance(1, 2) {
                            b[n - 3] = 0xff;
                        } else {
                            b.truncate(n - 1);
                            b.push(b'x');
                        }
                    }
                    "dns" => {
                        b[13] = 0xff;
                        if rng.chance(1, 2) {
                            b[14] = 0xfe;
                        }
                    }
                    _ => {
                        let extra = rng.gen_range(0..5);
                        b.extend_from_slice(&rng.bytes(extra));
                    }
                }
                (b, name, "bad-string")
            }
            8 | 9 => {
                // compound: two to four mutations of different kinds on the same packet, so that fields
                // disagree with each other and with the number of bytes present
                let mut b = base.clone();
                for _ in 0..rng.gen_range(2..=4) {
                    if b.is_empty() {
                        break;
                    }
                    match rng.gen_range(0..6) {
                        0 => b.truncate(rng.gen_range(0..=b.len())),
                        1 => {
                            let i = rng.gen_range(0..b.len());
                            b[i] ^= 1 << rng.gen_range(0..8);
                        }
                        2 => {
                            let i = rng.gen_range(0..b.len().min(32));
                            b[i] = *rng.pick(&[0u8, 0xff, 0x80, 0x7f, 0x4f, 0x46, 0xf0]);
                        }
                        3 => {
                            let i = rng.gen_range(0..b.len().min(32));
                            b[i] = rng.gen();
                        }
                        4 => {
                            if b.len() >= 4 {
                                let i = rng.gen_range(0..(b.len() - 1).min(30));
                                let l: u16 = *rng.pick(&[0u16, 1, 19, 20, 60, 0x7fff, 0x8000, 0xffff]);
                                b[i..i + 2].copy_from_slice(&l.to_be_bytes());
                            }
                        }
                        _ => {
                            let extra = rng.gen_range(0..40);
                            b.extend_from_slice(&rng.bytes(extra));
                        }
                    }
                }
                (b, if rng.chance(1, 2) { name } else { "all" }, "compound")
            }
            6 => {
                // a valid packet of one protocol fed to every other decoder
                (base.clone(), "all", "cross-protocol")
            }
            _ => {
                let mut b = base.clone();
                let extra = rng.gen_range(0..30);
                b.extend_from_slice(&rng.bytes(extra));
                (b, name, "trailing-garbage")
            }
        };
        d.evaluations += 1;
        match decode_all(which, &bytes) {
            Ok(outcome) => {
                for part in outcome.split(';').filter(|s| !s.is_empty()) {
                    d.nontrivial(fnv_str(&format!("{part}|{kname}")));
                    d.saw("decoder_outcomes", part.to_string());
                }
            }
            Err(e) => {
                let (msg, loc) = split_panic(&e);
                d.violation(
                    format!("panic:{loc}"),
                    format!("a packet decoder panicked on a {}-byte {kname} input derived from a {name} packet: {msg}", bytes.len()),
                    json!({"bytes": hex(&bytes), "derived_from": name, "mutation": kname}),
                );
            }
        }
        // MessageType::try_from over all 256 values, once per batch
        if i == 0 {
            for v in 0..=255u8 {
                d.evaluations += 1;
                if let Err(e) = catch(|| MessageType::try_from(v).is_ok()) {
                    let (msg, loc) = split_panic(&e);
                    d.violation(format!("panic:{loc}"), format!("MessageType::try_from({v}) panicked: {msg}"), json!({"value": v}));
                }
            }
        }
    }
}

// ------------------------------------------------------------------ NDL texts

fn corpus() -> Vec<String> {
    let mut out = vec![];
    let dirs = [
        "/repo/sim/elvis/src/ndl",
        "/repo/sim/elvis/tests/parsing_tests",
        "/repo/sim/elvis/tests/generator_tests/valid/basic",
        "/repo/sim/elvis/tests/generator_tests/valid/capture",
        "/repo/sim/elvis/tests/generator_tests/machines/capture",
        "/repo/sim/elvis/tests/generator_tests/machines/general",
        "/repo/sim/elvis/tests/generator_tests/networks",
    ];
    for dir in dirs {
        if let Ok(rd) = std::fs::read_dir(dir) {
            let mut names: Vec<PathBuf> = rd.filter_map(|e| e.ok().map(|e| e.path())).collect();
            names.sort();
            for p in names {
                let ext = p.extension().and_then(|e| e.to_str()).unwrap_or("");
                if ext == "ndl" || ext == "txt" {
                    if let Ok(s) = std::fs::read_to_string(&p) {
                        out.push(s);
                    }
                }
            }
        }
    }
    if out.is_empty() {
        out.push("[Networks]\n\t[Network id='1']\n\t\t[IP range='1.2.3.4-9']\n[Machines]\n\t[Machine name='a']\n\t\t[Networks]\n\t\t\t[Network id='1']\n\t\t[Protocols]\n\t\t\t[Protocol name='IPv4']\n\t\t[Applications]\n\t\t\t[Application name='capture' ip='1.2.3.4' port='5' message_count='1']\n".into());
    }
    out
}

pub fn scratch_file(tag: &str) -> PathBuf {
    let dir = crate::driver::verif_dir().join("harness").join("target").join("scratch");
    let _ = std::fs::create_dir_all(&dir);
    dir.join(format!("{}-{}.ndl", tag, std::process::id()))
}

fn mutate_text(rng: &mut impl Rng, base: &str) -> (String, &'static str) {
    let tokens = ["[", "]", "'", "=", "\t", "    ", "\n", "\r\n", " ", "\\", "\\'", "[IPtype x='1']", "[IP", "IPtype", "[Template]", "[Networks]", "[Machine]", "[Protocol name='IPv4']", "é", "日本", "\u{0}", "''", "name=", "='"];
    let mut s = base.to_string();
    let kind = rng.gen_range(0..9);
    let pos = |rng: &mut dyn rand::RngCore, s: &str| -> usize {
        let mut p = rng.gen_range(0..=s.len());
        while !s.is_char_boundary(p) {
            p -= 1;
        }
        p
    };
    let name = match kind {
        0 => {
            let p = pos(rng, &s);
            s.truncate(p);
            "truncate"
        }
        1 => {
            let p = pos(rng, &s);
            s.insert_str(p, *rng.pick(&tokens));
            "insert-token"
        }
        2 => {
            // delete a random line
            let lines: Vec<&str> = s.lines().collect();
            if lines.len() > 1 {
                let k = rng.gen_range(0..lines.len());
                s = lines.iter().enumerate().filter(|(i, _)| *i != k).map(|(_, l)| *l).collect::<Vec<_>>().join("\n");
            }
            "delete-line"
        }
        3 => {
            let lines: Vec<&str> = s.lines().collect();
            let k = rng.gen_range(0..lines.len());
            let mut v: Vec<String> = lines.iter().map(|l| l.to_string()).collect();
            v.insert(k, lines[k].to_string());
            s = v.join("\n");
            "duplicate-line"
        }
        4 => {
            // indentation shift of one line
            let mut v: Vec<String> = s.lines().map(|l| l.to_string()).collect();
            let k = rng.gen_range(0..v.len());
            match rng.gen_range(0..4) {
                0 => v[k] = format!("\t{}", v[k]),
                1 => v[k] = v[k].trim_start().to_string(),
                2 => v[k] = format!("  {}", v[k]),
                _ => v[k] = v[k].replacen('\t', "    ", 1),
            }
            s = v.join("\n");
            "indent-shift"
        }
        5 => {
            let from = *rng.pick(&["IP ", "Network ", "Machine ", "Protocol ", "Application ", "Networks", "Machines", "Protocols", "Applications"]);
            let to = *rng.pick(&["IPtype ", "Template ", "Machine ", "IP ", "Protocols", "Network ", "Bogus ", "iptype "]);
            s = s.replacen(from, to, 1);
            "keyword-swap"
        }
        6 => {
            let p = pos(rng, &s);
            let q = pos(rng, &s);
            let (a, b) = (p.min(q), p.max(q));
            s.replace_range(a..b, "");
            "delete-span"
        }
        7 => {
            s = s.replace('\n', "\r\n");
            if rng.chance(1, 2) {
                s = s.replace('\t', "    ");
            }
            "crlf-spaces"
        }
        _ => {
            for _ in 0..rng.gen_range(1..4) {
                let p = pos(rng, &s);
                s.insert_str(p, *rng.pick(&tokens));
            }
            "multi-insert"
        }
    };
    (s, name)
}

fn ndl_texts(d: &mut Delta, rng: &mut impl Rng, n: usize) {
    let corpus = corpus();
    let path = scratch_file("c14");
    for _ in 0..n {
        d.evaluations += 1;
        let base = &corpus[rng.gen_range(0..corpus.len())];
        let (text, kind) = mutate_text(rng, base);
        if std::fs::write(&path, &text).is_err() {
            d.inconclusive += 1;
            continue;
        }
        let p = path.to_string_lossy().to_string();
        match catch(|| elvis::ndl::core_parser(p)) {
            Ok(Ok(_)) => {
                d.nontrivial(fnv_str(&format!("ndl|Ok|{kind}")));
                d.tally("ndl_parsed_ok", 1);
            }
            Ok(Err(msg)) => {
                d.nontrivial(fnv_str(&format!("ndl|Err|{kind}")));
                d.tally("ndl_rejected_with_error", 1);
                if msg.trim().is_empty() {
                    d.violation("ndl:empty-error-message", "core_parser returned an empty error message".to_string(), json!({"text": text}));
                }
            }
            Err(e) => {
                let (msg, loc) = split_panic(&e);
                let short: String = msg.chars().take(160).collect();
                d.violation(
                    format!("panic:{loc}"),
                    format!("core_parser panicked on a mutated ({kind}) description: {short}"),
                    json!({"text": text, "mutation": kind}),
                );
            }
        }
    }
    let _ = std::fs::remove_file(&path);
}

fn run(env: &Env, k: u64, d: &mut Delta) {
    let mut rng = scenario_rng("C14", env.seed, k);
    match k % 4 {
        0 | 1 => decoders(d, &mut rng, env.tier.pick3(9_000, 18_000, 120)),
        2 => ndl_texts(d, &mut rng, env.tier.pick3(1_200, 1_200, 4)),
        _ if env.tier == crate::Tier::Tiny => decoders(d, &mut rng, 120),
        _ => inject(env, k, d, &mut rng),
    }
    if k < 4 {
        let v = valid_packets(&mut rng);
        d.sample(json!({"kind": "valid packets the mutations start from", "packets": v.iter().map(|(n, b)| json!({"proto": n, "bytes": hex(b)})).collect::<Vec<_>>()}));
    }
}

/// Full-stack part, filled in by net-based scenarios.
fn inject(env: &Env, k: u64, d: &mut Delta, rng: &mut rand::rngs::SmallRng) {
    crate::props::c14net::inject(env, k, d, rng);
}
