//! C06 — ARP resolves an IP address to its owner's (or the gateway's) MAC.

use crate::net::*;
use crate::{scenario_rng, Delta, Env, PropDef, RngExt};
use elvis_core::{
    network::{verif::Verdict, Latency, Mac, NetworkBuilder},
    protocols::{
        arp::{
            arp_parsing::{ArpPacket, Operation},
            subnetting::{Ipv4Mask, SubnetInfo},
        },
        ipv4::Ipv4Address,
        AddressPair, Arp, Pci,
    },
    run_internet, Machine, Network,
};
use rand::Rng;
use serde_json::{json, Value};
use std::{
    sync::{Arc, Mutex},
    time::Duration,
};

pub static DEF: PropDef = PropDef {
    id: "C06",
    level: "exploration",
    total: |t| t.pick(1024, 25600),
    run,
    rule: "2..8 machines on one network, 1..3 distinct claimed addresses each, per-machine subnet configuration (mask of any length 0..=32, a gateway that is some machine's address or nobody's), 1..20 resolutions started at random virtual times (same or different targets, claimed or unclaimed, on- or off-subnet), latency 0..30 ms, loss plans over ARP frames: none / first k requests / first k replies / every n-th frame / everything. Run on the paused clock. Every Arp::resolve return value and completion time is checked against the owner's tap address computed from Pci::mac_addresses, the harness's own subnet arithmetic and the ARP frames the H4 hook saw delivered. Non-trivial = scenario with >=1 retry observed (a second request for the same target by the same resolver) and >=1 gateway substitution; distinct by scenario hash.",
    assumptions: &[
        "claimed addresses are pairwise distinct across machines",
        "a call answered from the failure cache sends no request; for it only 'error, and at once' is judged",
        "success is demanded exactly when an ARP packet whose sender address is the looked-up address was handed to the resolver's tap between call and return (that is what teaches the table)",
    ],
    may_exit_process: true,
    watchdog_s: 300,
    nt_floor: |t| t.pick(20, 300),
};

#[derive(Clone, Debug)]
struct Call {
    id: usize,
    machine: usize,
    slot: u32,
    local: u32,
    remote: u32,
    at_ms: u64,
}

#[derive(Clone, Debug)]
struct Outcome {
    id: usize,
    result: Result<Mac, ()>,
    t_start: Duration,
    t_end: Duration,
}

fn ip(x: u32) -> Ipv4Address {
    Ipv4Address::from(x)
}

fn scenario(env: &Env, k: u64, case: u64, rng: &mut rand::rngs::SmallRng, d: &mut Delta) {
    d.evaluations += 1;
    let n_machines = rng.gen_range(2..=8usize);
    let two_nets = false; // the ARP table is per machine, not per tap: one network per scenario (see DESIGN.md C06)
    let lat = *rng.pick(&[0u64, 0, 1, 10, 30]);
    // addresses: machine m claims base+m*16+j
    let base: u32 = match rng.gen_range(0..3) {
        0 => 0x0A00_0000,
        1 => 0xC0A8_0100,
        _ => rng.gen::<u32>() & 0xFFFF_FF00,
    };
    let mut claims: Vec<Vec<u32>> = vec![];
    for m in 0..n_machines {
        let n = rng.gen_range(1..=3);
        claims.push((0..n).map(|j| base.wrapping_add((m as u32) * 4 + j + 1)).collect());
    }
    // which machines have a second tap
    let second: Vec<bool> = (0..n_machines).map(|m| two_nets && (m < 2 || rng.chance(1, 2))).collect();
    // subnet config per machine (for its first claimed address)
    // every machine has its own mask (any length 0..=32, the ends and the lengths that split the claimed
    // block over-represented) and its own gateway, which exists or not
    let mask_len: Vec<u32> = (0..n_machines).map(|_| if rng.chance(1, 2) { *rng.pick(&[0u32, 8, 24, 28, 29, 30, 31, 32]) } else { rng.gen_range(0..=32) }).collect();
    let gateway_exists: Vec<bool> = (0..n_machines).map(|_| rng.chance(3, 4)).collect();
    let gateway_ip: Vec<u32> = (0..n_machines).map(|m| if gateway_exists[m] { claims[rng.gen_range(0..n_machines)][0] } else { base.wrapping_add(250) }).collect();
    let subnet_on: Vec<bool> = (0..n_machines).map(|_| rng.chance(1, 2)).collect();
    // calls
    let n_calls = rng.gen_range(1..=20usize);
    let mut calls = vec![];
    let all_claimed: Vec<(usize, u32)> = claims.iter().enumerate().flat_map(|(m, v)| v.iter().map(move |a| (m, *a))).collect();
    let hot_target = all_claimed[rng.gen_range(0..all_claimed.len())].1;
    for id in 0..n_calls {
        let machine = rng.gen_range(0..n_machines);
        let slot = if second[machine] && rng.chance(1, 4) { 1 } else { 0 };
        let local = if subnet_on[machine] || rng.chance(2, 3) { claims[machine][0] } else { *rng.pick(&claims[machine]) };
        let remote = match rng.gen_range(0..10) {
            0 | 1 => base.wrapping_add(200 + rng.gen_range(0..20)), // unclaimed, same /24
            2 => rng.gen(),                                        // far away, unclaimed
            3 | 4 | 5 => hot_target,
            _ => all_claimed[rng.gen_range(0..all_claimed.len())].1,
        };
        calls.push(Call { id, machine, slot, local, remote, at_ms: *rng.pick(&[0u64, 0, 1, 150, 199, 200, 201, 450, 1999, 2500]) + rng.gen_range(0..3) });
    }
    // loss plan
    let plan_kind = rng.gen_range(0..7);
    let plan_k = rng.gen_range(1..=11usize);
    let plan_name = ["none", "drop first k requests of each sender", "drop first k replies", "drop every k-th ARP frame", "drop everything", "none", "duplicate replies"][plan_kind];
    let desc = json!({
        "machines": n_machines, "claims": claims.iter().map(|v| v.iter().map(|a| format!("{}", ip(*a))).collect::<Vec<_>>()).collect::<Vec<_>>(),
        "second_tap": second, "latency_ms": lat, "mask_len": mask_len, "gateway": gateway_ip.iter().map(|g| format!("{}", ip(*g))).collect::<Vec<_>>(), "gateway_exists": gateway_exists, "subnet_configured": subnet_on,
        "loss_plan": plan_name, "k": plan_k,
        "calls": calls.iter().map(|c| format!("#{} m{} slot{} {} -> {} at {}ms", c.id, c.machine, c.slot, ip(c.local), ip(c.remote), c.at_ms)).collect::<Vec<_>>(),
        "scenario": k, "case": case,
    });

    let outcomes: Arc<Mutex<Vec<Outcome>>> = Arc::new(Mutex::new(vec![]));
    let (rec, macs, net_ids) = {
        let claims = claims.clone();
        let calls = calls.clone();
        let outcomes = outcomes.clone();
        let second = second.clone();
        let subnet_on = subnet_on.clone();
        let mask_len = mask_len.clone();
        let gateway_ip = gateway_ip.clone();
        run_paused(async move {
            let mk = || {
                let mut b = NetworkBuilder::new();
                if lat > 0 {
                    b = b.latency(Latency::constant(ms(lat)));
                }
                b.build()
            };
            let nets: Vec<Arc<Network>> = vec![mk(), mk()];
            let mut req_seen: std::collections::HashMap<Mac, usize> = Default::default();
            let mut rep_seen = 0usize;
            let mut all_seen = 0usize;
            let rec = Recorder::new(Box::new(move |f: &FrameRec| {
                if f.kind != Kind::Arp {
                    return Verdict::PASS;
                }
                all_seen += 1;
                let pkt = ArpPacket::from_bytes(f.bytes.iter().cloned());
                let is_req = matches!(pkt.as_ref().map(|p| p.oper), Ok(Operation::Request));
                match plan_kind {
                    1 if is_req => {
                        let c = req_seen.entry(f.sender).or_insert(0);
                        *c += 1;
                        if *c <= plan_k {
                            return Verdict::Drop;
                        }
                        Verdict::PASS
                    }
                    2 if !is_req => {
                        rep_seen += 1;
                        if rep_seen <= plan_k {
                            Verdict::Drop
                        } else {
                            Verdict::PASS
                        }
                    }
                    3 => {
                        if all_seen % plan_k.max(2) == 0 {
                            Verdict::Drop
                        } else {
                            Verdict::PASS
                        }
                    }
                    4 => Verdict::Drop,
                    6 if !is_req => Verdict::Deliver { extra_delay: Duration::ZERO, copies: 2 },
                    _ => Verdict::PASS,
                }
            }));
            for n in &nets {
                n.set_verif_hook(rec.clone());
            }
            let t0 = tokio::time::Instant::now();
            let log: Log = Arc::new(Mutex::new(vec![]));
            let mut machines = vec![];
            let mut macs: Vec<Vec<Mac>> = vec![];
            for m in 0..claims.len() {
                let mut taps = vec![nets[0].clone()];
                if second[m] {
                    taps.push(nets[1].clone());
                }
                let pci = Pci::new(taps);
                macs.push(pci.mac_addresses().collect());
                let mut arp = Arp::new();
                if subnet_on[m] {
                    arp = arp.preconfig_subnet(ip(claims[m][0]), SubnetInfo::new(Ipv4Mask::from_bitcount(mask_len[m]), ip(gateway_ip[m])));
                }
                let my_claims = claims[m].clone();
                let my_calls: Vec<Call> = calls.iter().filter(|c| c.machine == m).cloned().collect();
                let outcomes = outcomes.clone();
                let mut parts = AppParts::new(m, log.clone(), t0);
                parts.setup = Some(Box::new(move |machine, _| {
                    Box::pin(async move {
                        let arp = machine.protocol::<Arp>().unwrap();
                        for a in my_claims {
                            arp.listen(ip(a));
                        }
                    })
                }));
                parts.body = Some(Box::new(move |machine, _, shutdown| {
                    Box::pin(async move {
                        let mut handles = vec![];
                        for c in my_calls {
                            let machine = machine.clone();
                            let outcomes = outcomes.clone();
                            handles.push(tokio::spawn(async move {
                                tokio::time::sleep(ms(c.at_ms)).await;
                                let arp = machine.protocol::<Arp>().unwrap();
                                let t_start = tokio::time::Instant::now().duration_since(t0);
                                let r = arp.resolve(AddressPair { local: ip(c.local), remote: ip(c.remote) }, c.slot, machine.clone()).await;
                                let t_end = tokio::time::Instant::now().duration_since(t0);
                                outcomes.lock().unwrap().push(Outcome { id: c.id, result: r.map_err(|_| ()), t_start, t_end });
                            }));
                        }
                        if machine.protocol::<App<0>>().map(|a| a.machine_index) == Some(0) {
                            tokio::time::sleep(Duration::from_secs(8)).await;
                            shutdown.shut_down();
                        }
                        for h in handles {
                            let _ = h.await;
                        }
                    })
                }));
                machines.push(with_app(Machine::new().with(pci).with(arp), 0, || parts).arc());
            }
            let _ = run_internet(&machines, Some(Duration::from_secs(30))).await;
            (rec, macs, vec![nets[0].verif_id(), nets[1].verif_id()])
        })
    };
    let frames = rec.snapshot();
    let outs = outcomes.lock().unwrap().clone();
    d.tally("arp_frames", frames.iter().filter(|f| f.kind == Kind::Arp).count() as u64);
    d.tally("resolve_calls", calls.len() as u64);
    let witness = |extra: Value| json!({"scenario": desc, "detail": extra});

    // owner lookup
    let owner_of = |addr: u32| -> Option<usize> { claims.iter().position(|v| v.contains(&addr)) };
    let mut retries_seen = false;
    let mut gateway_subst = false;
    // retry detection from the wire: same sender asks for the same target twice
    {
        let mut seen: std::collections::HashSet<(Mac, u64, u32)> = Default::default();
        for f in frames.iter().filter(|f| f.kind == Kind::Arp) {
            if let Ok(p) = ArpPacket::from_bytes(f.bytes.iter().cloned()) {
                if p.oper == Operation::Request && !seen.insert((f.sender, f.net_id, p.target_ip.to_u32())) {
                    retries_seen = true;
                }
                // replies must come from the owner of the address they announce
                if p.oper == Operation::Reply {
                    let who = macs.iter().position(|v| v.contains(&f.sender) && f.net_id == net_ids[v.iter().position(|x| *x == f.sender).unwrap().min(1)]);
                    let owner = owner_of(p.sender_ip.to_u32());
                    let claimed_by_resolving = calls.iter().any(|c| c.local == p.sender_ip.to_u32());
                    if owner.is_none() && !claimed_by_resolving {
                        d.violation("reply-for-unclaimed-address", format!("an ARP reply announces {} which nobody claimed", p.sender_ip), witness(json!({"frame_from": f.sender})));
                        return;
                    }
                    let _ = who;
                }
            }
        }
    }
    let mut ok_answers: std::collections::HashMap<(u32, u32), Mac> = Default::default(); // (net slot, effective target) -> mac
    for c in &calls {
        let o = match outs.iter().find(|o| o.id == c.id) {
            Some(o) => o,
            None => {
                d.violation("resolve-never-returned", format!("resolve #{} ({} -> {}) had not returned 5.5 s of simulated time after the last call was issued", c.id, ip(c.local), ip(c.remote)), witness(json!({"call": format!("{c:?}")})));
                return;
            }
        };
        // effective target by the harness's own arithmetic
        let configured = subnet_on[c.machine] && c.local == claims[c.machine][0];
        let ml = mask_len[c.machine];
        let m = if ml == 0 { 0u32 } else { (!0u32) << (32 - ml) };
        let target = if configured && (c.local & m) != (c.remote & m) {
            gateway_subst = true;
            gateway_ip[c.machine]
        } else {
            c.remote
        };
        let took = o.t_end.saturating_sub(o.t_start);
        if took > ms(2001) {
            d.violation("resolve-exceeded-retry-period", format!("resolve #{} took {:?} of simulated time (retry budget 10 x 200 ms)", c.id, took), witness(json!({"call": format!("{c:?}")})));
            return;
        }
        let owner = owner_of(target);
        // the resolver's own address resolves through its own claim only if someone answers: the stack does not answer itself
        match o.result {
            Ok(mac) => {
                let net_index = c.slot as usize;
                let want = owner.and_then(|om| macs[om].get(net_index).copied());
                // a resolver that claimed the target itself (local == target on another machine is excluded by construction)
                match want {
                    Some(w) if w == mac => {}
                    _ => {
                        // the looked-up address may be one the *resolver's own calls* announced as local on another machine: not generated
                        let whose = macs.iter().position(|v| v.get(net_index) == Some(&mac));
                        d.violation(
                            if owner.is_none() { "resolved-unclaimed-address" } else { "resolved-to-wrong-machine" },
                            format!(
                                "resolve #{} of {} (effective target {}) on slot {} returned MAC {} (machine {:?}); the address is claimed by machine {:?} whose tap there is {:?}",
                                c.id,
                                ip(c.remote),
                                ip(target),
                                c.slot,
                                mac,
                                whose,
                                owner,
                                want
                            ),
                            witness(json!({"call": format!("{c:?}")})),
                        );
                        return;
                    }
                }
                if let Some(prev) = ok_answers.insert((c.slot, target), mac) {
                    if prev != mac {
                        d.violation("resolvers-disagree", format!("two resolutions of {} returned different addresses {} and {}", ip(target), prev, mac), witness(json!({"call": format!("{c:?}")})));
                        return;
                    }
                }
                d.tally("resolved_ok", 1);
            }
            Err(()) => {
                d.tally("resolved_err", 1);
                // was the resolver taught the mapping between call and return?
                let my_mac = macs[c.machine][c.slot as usize];
                let nid = net_ids[c.slot as usize];
                let taught = frames.iter().filter(|f| f.kind == Kind::Arp && f.net_id == nid).any(|f| {
                    let p = match ArpPacket::from_bytes(f.bytes.iter().cloned()) {
                        Ok(p) => p,
                        Err(_) => return false,
                    };
                    p.sender_ip.to_u32() == target && f.deliveries.iter().any(|(tap, t, _)| *tap == my_mac && *t > o.t_start && *t < o.t_end)
                });
                if taught {
                    d.violation(
                        "failed-although-answer-arrived",
                        format!("resolve #{} of {} returned an error at {:?} although an ARP packet announcing that address was handed to the resolver's tap after the call started at {:?}", c.id, ip(target), o.t_end, o.t_start),
                        witness(json!({"call": format!("{c:?}")})),
                    );
                    return;
                }
            }
        }
    }
    if retries_seen && gateway_subst {
        d.nontrivial(crate::fnv_str(&desc.to_string()));
    }
    if case == 0 && k < 2 {
        d.sample(json!({"scenario": desc, "outcomes": outs.iter().map(|o| format!("#{} {:?} {:?}..{:?}", o.id, o.result, o.t_start, o.t_end)).collect::<Vec<_>>()}));
    }
    let _ = env;
}

fn run(env: &Env, k: u64, d: &mut Delta) {
    let mut rng = scenario_rng("C06", env.seed, k);
    for case in 0..env.tier.pick(40, 60) {
        scenario(env, k, case, &mut rng, d);
    }
}
