use crate::PropDef;

pub mod c07;

pub fn all() -> Vec<&'static PropDef> {
    vec![&c07::DEF]
}

pub fn find(id: &str) -> Option<&'static PropDef> {
    all().into_iter().find(|d| d.id == id)
}
