//! C01 — TCP delivers a reliable, ordered, exactly-once byte stream (TCB level).

use crate::tcbsim::*;
use crate::{scenario_rng, split_panic, Delta, Env, PropDef, RngExt};
use elvis_core::protocols::tcp::verif::State;
use rand::Rng;
use serde_json::{json, Value};

pub static DEF: PropDef = PropDef {
    id: "C01",
    level: "exploration",
    total: |t| t.pick(384, 22400),
    run,
    rule: "random schedules over {write A/B (1, MSS-1, MSS, MSS+1, 3000, 65535, 70000, 200000 bytes; in SYN-SENT, SYN-RECEIVED and ESTABLISHED, incl. the passive side before its SYN-ACK is seen), segments()->network, receive() eager or withheld, deliver any in-flight segment, drop, duplicate, advance_time 1/50/101 ms}, MTU in {100,101,150,576,1500,9000,65535}, active/passive and simultaneous open, ISNs uniform and near 0/2^31/2^32; prefix safety checked after every step, then a fair loss-free phase with a round bound. Non-trivial = >=1 retransmitted data segment AND >=1 out-of-order arrival AND >=1 byte delivered each way; distinct by decision-trace hash.",
    assumptions: &[
        "no close() is issued (C03 covers closing); both applications eventually read",
        "bounded progress: after faults stop, R = 40 + 8*(ceil(bytes/60000)+1) rounds of (emit, deliver all in order, read, advance 101 ms) must suffice",
    ],
    may_exit_process: false,
    watchdog_s: 600,
    nt_floor: |t| t.pick(100, 5000),
};

pub const MTUS: [u16; 7] = [100, 101, 150, 576, 1500, 9000, 65535];

pub fn pick_isn(rng: &mut impl Rng) -> u32 {
    match rng.gen_range(0..8) {
        0 => rng.gen_range(0..70000),
        1 => u32::MAX - rng.gen_range(0..70000),
        2 => (1u32 << 31).wrapping_add(rng.gen_range(0..140000)).wrapping_sub(70000),
        3 => *rng.pick(&[0u32, 1, u32::MAX, u32::MAX - 1, 1 << 31, (1 << 31) - 1]),
        _ => rng.gen(),
    }
}

/// One decision of the schedule. Kept explicit so that C12 can replay the same
/// decisions under shifted ISNs.
#[derive(Debug, Clone, Copy, PartialEq, Eq)]
pub enum Decision {
    Write(usize, usize),
    Pump(usize),
    Read(usize),
    /// deliver the flight at position (value % in-flight count)
    Deliver(usize),
    Drop(usize),
    Dup(usize),
    Tick(usize, u64),
}

impl Decision {
    pub fn show(&self) -> String {
        match self {
            Decision::Write(s, n) => format!("write{}:{n}", side_name(*s)),
            Decision::Pump(s) => format!("pump{}", side_name(*s)),
            Decision::Read(s) => format!("read{}", side_name(*s)),
            Decision::Deliver(i) => format!("deliver#{i}"),
            Decision::Drop(i) => format!("drop#{i}"),
            Decision::Dup(i) => format!("dup#{i}"),
            Decision::Tick(s, ms) => format!("tick{}:{ms}", side_name(*s)),
        }
    }
}

pub fn side_name(s: usize) -> &'static str {
    if s == A {
        "A"
    } else {
        "B"
    }
}

pub fn gen_decision(rng: &mut impl Rng, mss: usize, budget: &mut usize, big_ok: bool) -> Decision {
    let side = rng.gen_range(0..2);
    match rng.gen_range(0..100) {
        0..=9 => {
            let mut sizes = vec![1usize, mss.saturating_sub(1).max(1), mss, mss + 1, 3000];
            if big_ok {
                sizes.extend_from_slice(&[65535, 70000, 200000]);
            }
            let n = (*rng.pick(&sizes)).min(*budget);
            if n == 0 {
                Decision::Pump(side)
            } else {
                *budget -= n;
                Decision::Write(side, n)
            }
        }
        10..=34 => Decision::Pump(side),
        35..=42 => Decision::Read(side),
        43..=72 => Decision::Deliver(if rng.chance(1, 2) { 0 } else { rng.gen_range(0..64) }),
        73..=79 => Decision::Drop(rng.gen_range(0..64)),
        80..=84 => Decision::Dup(rng.gen_range(0..64)),
        _ => Decision::Tick(side, *rng.pick(&[1u64, 50, 101])),
    }
}

pub fn apply(p: &mut Pair, dec: Decision) {
    match dec {
        Decision::Write(s, n) => {
            p.write(s, n);
        }
        Decision::Pump(s) => {
            p.pump(s);
        }
        Decision::Read(s) => {
            p.read(s);
        }
        Decision::Deliver(i) => {
            if !p.net.is_empty() {
                let idx = i % p.net.len();
                p.deliver(idx);
            }
        }
        Decision::Drop(i) => {
            if !p.net.is_empty() {
                let idx = i % p.net.len();
                p.drop_flight(idx);
            }
        }
        Decision::Dup(i) => {
            if !p.net.is_empty() && p.net.len() < 4000 {
                let idx = i % p.net.len();
                p.duplicate(idx);
            }
        }
        Decision::Tick(s, ms) => p.tick(s, ms),
    }
}

/// Safety: what each application has read is a prefix of what the other wrote.
pub fn check_prefix(p: &Pair) -> Option<(String, String)> {
    for s in [A, B] {
        let got = &p.sides[s].delivered;
        let sent = &p.sides[1 - s].submitted;
        if !is_prefix(got, sent) {
            let pos = got
                .iter()
                .zip(sent.iter())
                .position(|(a, b)| a != b)
                .unwrap_or(sent.len().min(got.len()));
            let kind = if got.len() > sent.len() && is_prefix(sent, got) {
                "more-delivered-than-submitted"
            } else {
                "stream-corrupted"
            };
            return Some((
                format!("{kind}"),
                format!(
                    "bytes read by {} are not a prefix of the bytes written by {}: first difference at stream offset {pos} (delivered {} bytes, submitted {})",
                    side_name(s),
                    side_name(1 - s),
                    got.len(),
                    sent.len()
                ),
            ));
        }
    }
    None
}

pub fn describe(p: &Pair) -> Value {
    let sd = |s: usize| {
        json!({
            "state": format!("{:?}", p.sides[s].state()),
            "released": p.sides[s].released,
            "submitted": p.sides[s].submitted.len(),
            "delivered": p.sides[s].delivered.len(),
            "snapshot": format!("{:?}", p.sides[s].snap()),
        })
    };
    json!({"A": sd(A), "B": sd(B), "in_flight": p.net.len()})
}

pub struct Outcome {
    pub violated: bool,
    pub rounds_needed: u64,
}

#[allow(clippy::too_many_arguments)]
pub fn run_schedule(
    d: &mut Delta,
    style: OpenStyle,
    iss_a: u32,
    iss_b: u32,
    mtu: u16,
    decisions: &[Decision],
    late_reader: bool,
    params: &Value,
) -> (Pair, Outcome) {
    let mut p = Pair::new(style, iss_a, iss_b, mtu);
    let mut trace: Vec<String> = vec![];
    let mut out = Outcome {
        violated: false,
        rounds_needed: 0,
    };
    let witness = |trace: &Vec<String>, p: &Pair| {
        let n = trace.len();
        json!({"params": params, "decisions_tail": trace[n.saturating_sub(60)..].to_vec(), "decisions_total": n, "endpoints": describe(p)})
    };
    for dec in decisions {
        if late_reader {
            if let Decision::Read(_) = dec {
                continue;
            }
        }
        trace.push(dec.show());
        apply(&mut p, *dec);
        if let Some(e) = &p.panic {
            let (msg, loc) = split_panic(e);
            d.violation(format!("panic:{loc}"), format!("TCB call panicked: {msg}"), witness(&trace, &p));
            out.violated = true;
            return (p, out);
        }
        if let Some((sig, what)) = check_prefix(&p) {
            d.violation(sig, what, witness(&trace, &p));
            out.violated = true;
            return (p, out);
        }
        p.obs.clear();
    }
    // fair phase
    let total_bytes = p.sides[A].submitted.len() + p.sides[B].submitted.len();
    let bound = 40 + 8 * ((total_bytes as u64 + 59_999) / 60_000 + 1);
    let mut silent = 0;
    let mut round = 0u64;
    let mut converged = false;
    while round < bound {
        round += 1;
        let emitted = p.fair_round(101, true);
        trace.push(format!("fair-round:{emitted}"));
        if let Some(e) = &p.panic {
            let (msg, loc) = split_panic(e);
            d.violation(format!("panic:{loc}"), format!("TCB call panicked in the loss-free phase: {msg}"), witness(&trace, &p));
            out.violated = true;
            return (p, out);
        }
        if let Some((sig, what)) = check_prefix(&p) {
            d.violation(sig, what, witness(&trace, &p));
            out.violated = true;
            return (p, out);
        }
        p.obs.clear();
        let all = [A, B].iter().all(|&s| p.sides[s].delivered.len() == p.sides[1 - s].submitted.len());
        let quiet_queues = [A, B].iter().all(|&s| match p.sides[s].snap() {
            Some(sn) => sn.retransmit_len == 0 && sn.text_len == 0,
            None => true,
        });
        if emitted == 0 && p.net.is_empty() {
            silent += 1;
        } else {
            silent = 0;
        }
        if all && quiet_queues && silent >= 3 {
            converged = true;
            break;
        }
        if silent >= 6 {
            // nothing will ever happen again
            break;
        }
    }
    out.rounds_needed = round;
    if !converged {
        let released = p.sides[A].released || p.sides[B].released;
        let rst = p.sides[A].rst_emitted + p.sides[B].rst_emitted;
        let states = format!("{:?}/{:?}", p.sides[A].state(), p.sides[B].state());
        let undelivered: Vec<usize> = [A, B]
            .iter()
            .map(|&s| p.sides[1 - s].submitted.len() - p.sides[s].delivered.len())
            .collect();
        let sig = if released || rst > 0 {
            "no-convergence:connection-reset-or-released"
        } else if undelivered.iter().any(|u| *u > 0) && silent >= 3 {
            "no-convergence:bytes-never-delivered-and-endpoints-silent"
        } else if undelivered.iter().any(|u| *u > 0) {
            "no-convergence:bytes-undelivered-within-bound"
        } else if silent < 3 {
            "no-convergence:endpoints-keep-transmitting"
        } else {
            "no-convergence:queues-not-drained"
        };
        d.violation(
            sig,
            format!(
                "after the network stopped losing segments, {round} fair rounds (bound {bound}) did not lead to everything delivered, acknowledged and silent: states {states}, undelivered to A/B {:?}, released={released}, RSTs emitted={rst}, silent rounds={silent}",
                undelivered
            ),
            witness(&trace, &p),
        );
        out.violated = true;
    }
    (p, out)
}

pub struct Params {
    pub style: OpenStyle,
    pub iss_a: u32,
    pub iss_b: u32,
    pub mtu: u16,
    pub decisions: Vec<Decision>,
    pub late_reader: bool,
}

pub fn gen_params(rng: &mut impl Rng, tier_steps: usize) -> Params {
    let style = if rng.chance(7, 10) {
        OpenStyle::ActivePassive
    } else {
        OpenStyle::Simultaneous
    };
    let mtu = *rng.pick(&MTUS);
    let mss = mtu as usize - 50;
    // keep the number of segments per scenario bounded
    let mut budget = (mss * 600).min(450_000);
    let big_ok = mtu >= 1500;
    let steps = rng.gen_range(20..=tier_steps);
    let decisions: Vec<Decision> = (0..steps).map(|_| gen_decision(rng, mss, &mut budget, big_ok)).collect();
    Params {
        style,
        iss_a: pick_isn(rng),
        iss_b: pick_isn(rng),
        mtu,
        decisions,
        late_reader: rng.chance(1, 6),
    }
}

fn run(env: &Env, k: u64, d: &mut Delta) {
    let mut rng = scenario_rng("C01", env.seed, k);
    let n = env.tier.pick(50, 64);
    let mut max_rounds = 0;
    for i in 0..n {
        d.evaluations += 1;
        let pr = gen_params(&mut rng, 400);
        let params = json!({"open": format!("{:?}", pr.style), "iss_a": pr.iss_a, "iss_b": pr.iss_b, "mtu": pr.mtu, "late_reader": pr.late_reader, "scenario": k, "case": i});
        let (p, out) = run_schedule(d, pr.style, pr.iss_a, pr.iss_b, pr.mtu, &pr.decisions, pr.late_reader, &params);
        max_rounds = max_rounds.max(out.rounds_needed);
        d.tally("decisions", pr.decisions.len() as u64);
        d.tally("segments_emitted", p.sides[A].emitted_segments + p.sides[B].emitted_segments);
        d.tally("retransmitted_data_segments", p.sides[A].retransmitted_data_segments + p.sides[B].retransmitted_data_segments);
        d.tally("out_of_order_arrivals", p.out_of_order_arrivals);
        d.tally("drops", p.drops);
        d.tally("duplicates", p.dups);
        d.tally("bytes_delivered", (p.sides[A].delivered.len() + p.sides[B].delivered.len()) as u64);
        d.saw("final_states", format!("{:?}/{:?}", p.sides[A].state(), p.sides[B].state()));
        let retx = p.sides[A].retransmitted_data_segments + p.sides[B].retransmitted_data_segments;
        if !out.violated && retx >= 1 && p.out_of_order_arrivals >= 1 && !p.sides[A].delivered.is_empty() && !p.sides[B].delivered.is_empty() {
            let h = crate::fnv_str(&pr.decisions.iter().map(|x| x.show()).collect::<Vec<_>>().join(","));
            d.nontrivial(crate::mix(h, pr.iss_a as u64 ^ ((pr.iss_b as u64) << 32) ^ pr.mtu as u64));
        }
        if i == 0 && k < 2 {
            d.sample(json!({"params": params, "decisions_head": pr.decisions.iter().take(40).map(|x| x.show()).collect::<Vec<_>>(), "decisions": pr.decisions.len(), "end": describe(&p)}));
        }
    }
    d.saw("max_fair_rounds_needed", format!("{max_rounds:04}"));
    let _ = State::Established;
}
