//! C12 — TCP behaviour is independent of absolute sequence numbers (mod 2^32).

use crate::props::c01::{apply, gen_params, side_name, Decision};
use crate::tcbsim::*;
use crate::{scenario_rng, split_panic, Delta, Env, PropDef, RngExt};
use elvis_core::protocols::tcp::verif::{mod_bounded, mod_geq, mod_gt, mod_leq, mod_lt, ModCmp};
use rand::Rng;
use serde_json::json;

pub static DEF: PropDef = PropDef {
    id: "C12",
    level: "exploration",
    total: |t| t.pick(256, 8000),
    run,
    rule: "metamorphic pairs: one C01 decision schedule (writes, reads, deliver/drop/duplicate/reorder, ticks, in half of them also one or two closes by either application at any point, then 25 fair rounds) executed under ISN pair (i,j) and under a shifted pair chosen so that the sequence space wraps 2^32 or crosses 2^31 during handshake or transfer; per step the emitted segments (flags, length, window, seq relative to the sender's ISN, ack relative to the receiver's ISN), states, delivered byte counts and release points must be identical. Plus comparison primitives mod_lt/leq/gt/geq/bounded against (b-a) mod 2^32 arithmetic for (a,d) with d<2^31, d biased to {0,1,2^31-2,2^31-1}, a around 0/2^31/2^32. Non-trivial pair = the shifted run's sequence numbers actually wrapped/crossed; distinct by (schedule hash, ISNs). Non-trivial primitive sample = distinct (a-class,d-class) tuple.",
    assumptions: &["the unshifted run is not itself an oracle of correctness (C01 is); only equality of the two normalised behaviours is judged"],
    may_exit_process: false,
    watchdog_s: 600,
    nt_floor: |t| t.pick(100, 5000),
};

fn norm_trace(style: OpenStyle, iss_a: u32, iss_b: u32, mtu: u16, decisions: &[Decision], late_reader: bool) -> (Vec<String>, Pair) {
    let mut p = Pair::new(style, iss_a, iss_b, mtu);
    let iss = [iss_a, iss_b];
    let mut out = vec![];
    let mut step = |p: &mut Pair, label: String, out: &mut Vec<String>| {
        let mut s = label;
        for o in p.obs.drain(..) {
            for (seq, ack, flags, len, wnd) in &o.emitted {
                let rs = seq.wrapping_sub(iss[o.side]);
                let ra = if flags & 16 != 0 { ack.wrapping_sub(iss[1 - o.side]) } else { *ack };
                s.push_str(&format!(" {}>[{} s{} a{} l{} w{}]", side_name(o.side), flag_names(*flags), rs, ra, len, wnd));
            }
            if o.released {
                s.push_str(&format!(" {}:released", side_name(o.side)));
            }
        }
        s.push_str(&format!(
            " | {:?}/{:?} d{}/{} f{}",
            p.sides[A].state(),
            p.sides[B].state(),
            p.sides[A].delivered.len(),
            p.sides[B].delivered.len(),
            p.net.len()
        ));
        if let Some(e) = &p.panic {
            s.push_str(&format!(" PANIC {}", split_panic(e).1));
        }
        out.push(s);
    };
    step(&mut p, "open".into(), &mut out);
    for d in decisions {
        if late_reader {
            if let Decision::Read(_) = d {
                continue;
            }
        }
        apply(&mut p, *d);
        step(&mut p, d.show(), &mut out);
        if p.panic.is_some() {
            return (out, p);
        }
    }
    for _ in 0..25 {
        p.fair_round(101, true);
        step(&mut p, "fair".into(), &mut out);
        if p.panic.is_some() {
            break;
        }
    }
    (out, p)
}

fn crossed(iss: u32, advanced: u32) -> bool {
    // does [iss, iss+advanced] contain 0 or 2^31 ?
    let end = iss as u64 + advanced as u64;
    end >= (1u64 << 32) || ((iss as u64) < (1u64 << 31) && end >= (1u64 << 31))
}

fn metamorphic(env: &Env, k: u64, d: &mut Delta) {
    let mut rng = scenario_rng("C12", env.seed, k);
    let n = env.tier.pick3(32, 32, 1);
    for i in 0..n {
        d.evaluations += 1;
        let mut pr = gen_params(&mut rng, 250);
        // half of the schedules also close: one or both applications, anywhere in the schedule, so that the
        // closing states and the FIN's sequence number take part in the comparison
        if rng.chance(1, 2) {
            for _ in 0..rng.gen_range(1..=2) {
                let at = rng.gen_range(0..=pr.decisions.len());
                pr.decisions.insert(at, Decision::Close(rng.gen_range(0..2)));
            }
            d.tally("schedules_with_close", 1);
        }
        // the shifted pair: land each ISN shortly before a wrap point
        let near = |rng: &mut rand::rngs::SmallRng| -> u32 {
            let back = match rng.gen_range(0..4) {
                0 => rng.gen_range(0..4),
                1 => rng.gen_range(0..2000),
                _ => rng.gen_range(0..70000),
            };
            let point = if rng.chance(2, 3) { 0u32 } else { 1u32 << 31 };
            point.wrapping_sub(back)
        };
        let (sa, sb) = (near(&mut rng), near(&mut rng));
        let (t1, p1) = norm_trace(pr.style, pr.iss_a, pr.iss_b, pr.mtu, &pr.decisions, pr.late_reader);
        let (t2, p2) = norm_trace(pr.style, sa, sb, pr.mtu, &pr.decisions, pr.late_reader);
        d.tally("steps_compared", t1.len().min(t2.len()) as u64);
        let params = json!({"open": format!("{:?}", pr.style), "mtu": pr.mtu, "isn_pair_1": [pr.iss_a, pr.iss_b], "isn_pair_2": [sa, sb], "late_reader": pr.late_reader, "scenario": k, "case": i});
        let first_diff = t1.iter().zip(t2.iter()).position(|(a, b)| a != b).or(if t1.len() != t2.len() { Some(t1.len().min(t2.len())) } else { None });
        if let Some(pos) = first_diff {
            let (x, y) = (t1.get(pos).cloned().unwrap_or_default(), t2.get(pos).cloned().unwrap_or_default());
            let sig = if y.contains("PANIC") || x.contains("PANIC") {
                let pe = p2.panic.as_ref().or(p1.panic.as_ref()).map(|e| split_panic(e).1).unwrap_or_default();
                format!("isn-dependent-panic:{pe}")
            } else {
                "isn-dependent-behaviour".to_string()
            };
            d.violation(
                sig,
                format!("behaviour differs between ISN pairs at step {pos}: with {:?}: `{}` — with {:?}: `{}`", (pr.iss_a, pr.iss_b), x, (sa, sb), y),
                json!({"params": params, "step": pos, "context_1": t1[pos.saturating_sub(5)..(pos + 1).min(t1.len())].to_vec(), "context_2": t2[pos.saturating_sub(5)..(pos + 1).min(t2.len())].to_vec()}),
            );
            continue;
        }
        // did the shifted run really wrap?
        let adv_a = p2.sides[A].snap().map(|s| s.snd_nxt.wrapping_sub(sa)).unwrap_or(1);
        let adv_b = p2.sides[B].snap().map(|s| s.snd_nxt.wrapping_sub(sb)).unwrap_or(1);
        let wrapped = crossed(sa, adv_a) || crossed(sb, adv_b);
        if wrapped {
            d.tally("pairs_with_wrap", 1);
            let h = crate::fnv_str(&pr.decisions.iter().map(|x| x.show()).collect::<Vec<_>>().join(","));
            d.nontrivial(crate::mix(h, (sa as u64) << 32 | sb as u64));
        }
        if i == 0 && k < 2 {
            d.sample(json!({"kind": "metamorphic-pair", "params": params, "steps": t1.len(), "wrapped": wrapped, "trace_head": t2.iter().take(8).collect::<Vec<_>>()}));
        }
    }
}

fn primitives(env: &Env, k: u64, d: &mut Delta) {
    let mut rng = scenario_rng("C12p", env.seed, k);
    let n = env.tier.pick3(400_000, 1_500_000, 400);
    let half = 1u32 << 31;
    let mut reported = 0;
    for i in 0..n {
        let (a, acls) = match rng.gen_range(0..6) {
            0 => (rng.gen_range(0..16), 0),
            1 => (u32::MAX - rng.gen_range(0..16), 1),
            2 => (half.wrapping_add(rng.gen_range(0..32)).wrapping_sub(16), 2),
            _ => (rng.gen(), 3),
        };
        let (dd, dcls) = match rng.gen_range(0..8) {
            0 => (0u32, 0),
            1 => (1, 1),
            2 => (half - 1, 2),
            3 => (half - 2, 3),
            4 => (rng.gen_range(2..70000), 4),
            _ => (rng.gen_range(0..half), 5),
        };
        let b = a.wrapping_add(dd);
        d.evaluations += 1;
        if i < 4000 {
            d.nontrivial(crate::mix(0xC12, (acls * 10 + dcls) as u64));
        }
        let want_lt = dd > 0;
        let mut errs: Vec<(&str, String)> = vec![];
        if mod_lt(a, b) != want_lt {
            errs.push(("mod_lt", format!("mod_lt({a},{b}) = {} expected {want_lt}", mod_lt(a, b))));
        }
        if dd > 0 && mod_lt(b, a) {
            errs.push(("mod_lt", format!("mod_lt({b},{a}) = true although {b} is {dd} after {a}")));
        }
        if !mod_leq(a, b) {
            errs.push(("mod_leq", format!("mod_leq({a},{b}) = false although b = a + {dd} (< 2^31)")));
        }
        if dd > 0 && mod_leq(b, a) {
            errs.push(("mod_leq", format!("mod_leq({b},{a}) = true although {b} is {dd} after {a}")));
        }
        if mod_gt(b, a) != want_lt {
            errs.push(("mod_gt", format!("mod_gt({b},{a}) = {} expected {want_lt}", mod_gt(b, a))));
        }
        if !mod_geq(b, a) {
            errs.push(("mod_geq", format!("mod_geq({b},{a}) = false although b = a + {dd} (< 2^31)")));
        }
        if dd > 0 && mod_geq(a, b) {
            errs.push(("mod_geq", format!("mod_geq({a},{b}) = true although {a} is {dd} before {b}")));
        }
        // bounded: a <= b <= c with total span < 2^31
        let d2 = if dd < half - 1 { rng.gen_range(0..(half - 1 - dd).min(70000).max(1)) } else { 0 };
        let c = b.wrapping_add(d2);
        for (c1, c2) in [(ModCmp::Lt, ModCmp::Lt), (ModCmp::Leq, ModCmp::Lt), (ModCmp::Lt, ModCmp::Leq), (ModCmp::Leq, ModCmp::Leq)] {
            let want = (c1 == ModCmp::Leq || dd > 0) && (c2 == ModCmp::Leq || d2 > 0);
            // degenerate cyclic cases where the widened interval covers the whole circle are not judged
            if dd as u64 + d2 as u64 + 2 >= half as u64 {
                continue;
            }
            if mod_bounded(a, c1, b, c2, c) != want {
                errs.push(("mod_bounded", format!("mod_bounded({a},{c1:?},{b},{c2:?},{c}) = {} expected {want}", !want)));
            }
            // b beyond c
            let e = rng.gen_range(1..1000u32);
            let b_out = c.wrapping_add(e);
            if (dd as u64 + d2 as u64 + e as u64 + 2) < half as u64 && mod_bounded(a, c1, b_out, c2, c) {
                errs.push(("mod_bounded", format!("mod_bounded({a},{c1:?},{b_out},{c2:?},{c}) = true although {b_out} lies after {c}")));
            }
            let b_before = a.wrapping_sub(e);
            if (dd as u64 + d2 as u64 + e as u64 + 2) < half as u64 && mod_bounded(a, c1, b_before, c2, c) {
                errs.push(("mod_bounded", format!("mod_bounded({a},{c1:?},{b_before},{c2:?},{c}) = true although {b_before} lies before {a}")));
            }
        }
        for (which, what) in errs {
            if reported < 6 {
                reported += 1;
                let cls = if dd == half - 1 { "distance-2^31-1" } else if dd == half - 2 { "distance-2^31-2" } else if dd == 0 { "distance-0" } else { "other-distance" };
                d.violation(format!("primitive:{which}:{cls}"), what, json!({"a": a, "b": b, "d": dd}));
            }
        }
    }
    if k == 1 {
        d.sample(json!({"kind": "primitive-samples", "count": n}));
    }
}

fn run(env: &Env, k: u64, d: &mut Delta) {
    if k % 5 == 1 {
        primitives(env, k, d);
    } else {
        metamorphic(env, k, d);
    }
}
