//! C02 — socket I/O across the full stack is intact, ordered and bounded.

use crate::net::*;
use crate::{scenario_rng, Delta, Env, PropDef, RngExt};
use elvis_core::{
    network::{verif::Verdict, Latency, Mac, NetworkBuilder},
    protocols::{
        ipv4::{Ipv4, Ipv4Address, Recipient},
        socket_api::socket::{ProtocolFamily, SocketType},
        Arp, Endpoint, Pci, SocketAPI, Tcp, TcpListener, TcpStream, Udp,
    },
    run_internet_with_timeout, ExitStatus, IpTable, Machine,
};
use rand::Rng;
use serde_json::{json, Value};
use std::{
    collections::HashMap,
    sync::{
        atomic::{AtomicUsize, Ordering},
        Arc, Mutex,
    },
    time::Duration,
};

pub static DEF: PropDef = PropDef {
    id: "C02",
    level: "exploration",
    total: |t| t.pick(64, 2400),
    run,
    rule: "one listening server and 1..8 (quick) / 1..32 (thorough) clients - in one paused scenario in 24 a crowd of 130..220 clients that have all connected and written before the server's first accept() - over sockets, TCP, IPv4, optional ARP and one link (in a third of the runs the clients also send 0..3 datagrams to a datagram socket of the same server, before their stream connects or after its first write: both transports between one pair of hosts at once): each client issues 1..40 writes (sizes 1, 5, MSS-1, MSS, MSS+1, 4000, 70000; back-to-back or spaced by simulated sleeps) through Socket::send or TcpStream::write; the server reads each connection with recv(n)/read_exact(n)/read() using n from {1,3,4,7,100,1460,65536}, eagerly or after a late start; in a third of the runs the listening socket is closed as soon as the last expected connection was accepted, the accepted sockets staying in use; MTU in {100,576,1500,65535}; latency jitter 0..5 ms; H4 plans dropping <=3 consecutive frames per direction and duplicating <=2; executed on the current_thread runtime with paused clock and on the multi_thread runtime with 2, 4 or 16 workers (content checks only). Every written byte encodes (connection id, stream offset) so loss, duplication, reordering and cross-talk are told apart; every read records (n asked, bytes got). Datagram sockets: each datagram must arrive intact or not at all, at the connected peer only. Non-trivial = >=2 writes in flight at once and >=1 partial read; multi-thread runs additionally count distinct arrival-order fingerprints.",
    assumptions: &[
        "bounded progress: the run must finish before the simulated timeout of 120 s (loss-free duration is well below 1 s)",
        "multi-thread runs judge content and order only; a wall-clock watchdog firing is inconclusive",
    ],
    may_exit_process: true,
    watchdog_s: 240,
    nt_floor: |t| t.pick(10, 100),
};

fn ip(x: u32) -> Ipv4Address {
    Ipv4Address::from(x)
}

/// byte at stream offset `i` of connection `c`
fn pat(c: u32, i: usize) -> u8 {
    let w = (i / 4) as u32;
    let word = w.wrapping_mul(2654435761).wrapping_add(c.wrapping_mul(0x01000193)) ^ (c << 24);
    word.to_be_bytes()[i % 4] ^ (((i % 4) as u8) << 5)
}

#[derive(Clone, Debug)]
struct ConnPlan {
    /// datagrams this client also sends to the server's datagram socket (same pair of hosts, other transport)
    side_dgrams: usize,
    /// true: the datagrams leave before the stream connects; false: after the first stream write
    side_first: bool,
    id: u32,
    writes: Vec<usize>,
    /// sleep before each write, simulated ms (0 = back to back)
    gaps: Vec<u64>,
    use_stream_api: bool,
}

#[derive(Clone, Debug, Default)]
struct ConnResult {
    reads: Vec<(usize, usize)>, // (asked, got)
    bytes: Vec<u8>,
    error: Option<String>,
    /// milliseconds since the start of the scenario at which the last read returned
    last_ms: u64,
}

#[derive(Clone, Copy, Debug, PartialEq, Eq)]
enum Rt {
    Paused,
    Multi(usize),
}

#[allow(clippy::too_many_arguments)]
fn stream_scenario(env: &Env, k: u64, case: u64, rng: &mut rand::rngs::SmallRng, d: &mut Delta, rt: Rt) {
    d.evaluations += 1;
    let multi = rt != Rt::Paused;
    // crowd: far more clients than any listen backlog one would think of, all connected and written before the
    // server calls accept() for the first time
    let crowd = !multi && rng.chance(1, 24);
    let n_clients = if crowd { rng.gen_range(130..=220usize) } else if multi { rng.gen_range(1..=4usize) } else { rng.gen_range(1..=env.tier.pick(8usize, 32)) };
    let late_accept_ms: u64 = if crowd { 3000 } else if !multi && rng.chance(1, 10) { *rng.pick(&[10u64, 300]) } else { 0 };
    let mtu = *rng.pick(&[100u16, 576, 1500, 65535]);
    let mss = mtu as usize - 50;
    let with_arp = rng.chance(1, 2);
    let jitter = *rng.pick(&[0u64, 0, 1, 5]);
    let read_sizes: Vec<usize> = {
        let all = [1usize, 3, 4, 7, 100, 1460, 65536];
        let n = rng.gen_range(1..=3);
        (0..n).map(|_| *rng.pick(&all)).collect()
    };
    let read_api = rng.gen_range(0..3); // 0 recv, 1 read_exact (TcpStream), 2 read()
    let late_reader_ms = if rng.chance(1, 5) { if multi { 20 } else { *rng.pick(&[50u64, 400, 3000]) } } else { 0 };
    let reader_pause_ms = if rng.chance(1, 6) && !multi { *rng.pick(&[1u64, 5, 20]) } else { 0 };
    let faults = rt == Rt::Paused && rng.chance(1, 2);
    let mut budget: usize = if multi { 30_000 } else if mtu == 100 { 40_000 } else { 400_000 };
    // mixed transports: in a third of the runs the clients also talk to the server's datagram socket, before or
    // while their stream is open (the two transports share hosts, addresses and the IP layer)
    let mixed = !crowd && rng.chance(1, 3);
    // "accept the connections you expect, then stop listening": in a third of the runs the listening socket is closed
    // (dropped) as soon as the last expected connection has been accepted, while the accepted sockets are still in use
    let close_listener = rng.chance(1, 3);
    let side_port = 5353u16;
    let mut plans = vec![];
    // slow-reader probe: many small spaced writes pile up as separate messages behind a reader that starts late
    let slow_reader_probe = !multi && rng.chance(1, 8);
    let late_reader_ms = if slow_reader_probe { 4000 } else { late_reader_ms };
    for id in 0..n_clients as u32 {
        let nw = if slow_reader_probe && id == 0 { rng.gen_range(260..=500usize) } else if crowd { rng.gen_range(1..=2usize) } else { rng.gen_range(1..=40usize) };
        let spaced = rng.chance(1, 3) || (slow_reader_probe && id == 0);
        let mut writes = vec![];
        let mut gaps = vec![];
        for _ in 0..nw {
            let sz = if slow_reader_probe && id == 0 { 5 } else if crowd { rng.gen_range(1..=6usize) } else { *rng.pick(&[1usize, 5, 5, 6, mss.saturating_sub(1).max(1), mss, mss + 1, 4000, 70000]) };
            let sz = sz.min(budget.max(1));
            budget = budget.saturating_sub(sz);
            writes.push(sz);
            gaps.push(if slow_reader_probe && id == 0 { 6 } else if spaced { if multi { *rng.pick(&[0u64, 1]) } else { *rng.pick(&[0u64, 1, 5, 30]) } } else { 0 });
        }
        let side_dgrams = if mixed { rng.gen_range(0..=3usize) } else { 0 };
        plans.push(ConnPlan { id, writes, gaps, use_stream_api: rng.chance(1, 2), side_dgrams, side_first: rng.chance(1, 2) });
    }
    if crowd {
        d.tally("crowd_runs", 1);
    }
    let read_api_name = ["recv", "read_exact", "read"][read_api];
    let desc = json!({
        "kind": "stream", "runtime": format!("{rt:?}"), "clients": n_clients, "mtu": mtu, "arp": with_arp, "jitter_ms": jitter,
        "read_sizes": read_sizes, "read_api": read_api_name, "late_reader_ms": late_reader_ms, "late_accept_ms": late_accept_ms, "crowd": crowd, "listener_closed_after_last_accept": close_listener, "mixed_transports": mixed, "side_datagrams": plans.iter().map(|p| format!("conn {}: {} {}", p.id, p.side_dgrams, if p.side_first { "before connect" } else { "after first write" })).collect::<Vec<_>>(), "slow_reader_probe": slow_reader_probe, "reader_pause_ms": reader_pause_ms, "faults": faults,
        "writes": plans.iter().map(|p| json!({"conn": p.id, "sizes": p.writes, "gaps_ms": p.gaps, "api": if p.use_stream_api {"TcpStream::write"} else {"Socket::send"}})).collect::<Vec<_>>(),
        "scenario": k, "case": case,
    });
    let results: Arc<Mutex<HashMap<u32, ConnResult>>> = Arc::new(Mutex::new(HashMap::new()));
    let accepted: Arc<Mutex<Vec<Arc<Mutex<ConnResult>>>>> = Arc::new(Mutex::new(vec![]));
    let client_errors: Arc<Mutex<Vec<String>>> = Arc::new(Mutex::new(vec![]));
    let inflight_max = Arc::new(AtomicUsize::new(0));
    let side_got: Arc<Mutex<Vec<Vec<u8>>>> = Arc::new(Mutex::new(vec![]));
    let server_ip = 0x0A00_0001u32;
    let port = 8080u16;

    let fut = {
        let plans = plans.clone();
        let results = results.clone();
        let accepted = accepted.clone();
        let client_errors = client_errors.clone();
        let read_sizes = read_sizes.clone();
        let inflight_max = inflight_max.clone();
        let side_got = side_got.clone();
        async move {
            let mut b = NetworkBuilder::new().mtu(mtu);
            if jitter > 0 {
                b = b.latency(Latency::variable(ms(0), ms(jitter)));
            }
            let net = b.build();
            // fault plan: per sender, drop runs of <=3 and duplicate <=2 in total
            let mut per_sender: HashMap<Mac, (u32, u32)> = HashMap::new(); // (frames seen, consecutive drops)
            let mut dups = 0u32;
            let mut lcg: u64 = 0x9E37_79B9_7F4A_7C15 ^ (k << 8) ^ case;
            let rec = Recorder::new(Box::new(move |f: &FrameRec| {
                if !faults || f.kind != Kind::Ipv4 {
                    return Verdict::PASS;
                }
                lcg = lcg.wrapping_mul(6364136223846793005).wrapping_add(1442695040888963407);
                let r = (lcg >> 33) % 100;
                let e = per_sender.entry(f.sender).or_insert((0, 0));
                e.0 += 1;
                if r < 12 && e.1 < 3 {
                    e.1 += 1;
                    return Verdict::Drop;
                }
                e.1 = 0;
                if r >= 97 && dups < 2 {
                    dups += 1;
                    return Verdict::Deliver { extra_delay: ms(r % 3), copies: 2 };
                }
                Verdict::PASS
            }));
            net.set_verif_hook(rec.clone());
            let t0 = tokio::time::Instant::now();
            let log: Log = Arc::new(Mutex::new(vec![]));
            let table: IpTable<Recipient> = [("0.0.0.0/0", Recipient::new(0, None))].into_iter().collect();
            let remaining = Arc::new(AtomicUsize::new(plans.len()));
            let mk_machine = |addr: u32| {
                let mut m = Machine::new().with(Udp::new()).with(Tcp::new()).with(Ipv4::new(table.clone())).with(Pci::new([net.clone()])).with(SocketAPI::new(Some(ip(addr))));
                if with_arp {
                    m = m.with(Arp::new());
                }
                m
            };
            // server
            let mut machines = vec![];
            {
                let results = results.clone();
                let accepted = accepted.clone();
                let read_sizes = read_sizes.clone();
                let n_conns = plans.len();
                let totals: HashMap<u32, usize> = plans.iter().map(|p| (p.id, p.writes.iter().sum::<usize>().max(8))).collect();
                let remaining = remaining.clone();
                let mut parts = AppParts::new(0, log.clone(), t0);
                parts.body = Some(Box::new(move |machine, _me, shutdown| {
                    Box::pin(async move {
                        let mut listener = match TcpListener::bind(Endpoint::new(ip(server_ip), port), machine.clone()).await {
                            Ok(l) => l,
                            Err(e) => {
                                results.lock().unwrap().insert(u32::MAX, ConnResult { error: Some(format!("bind: {e:?}")), ..Default::default() });
                                shutdown.shut_down_with_status(ExitStatus::Status(3));
                                return;
                            }
                        };
                        let mut handles = vec![];
                        if mixed {
                            let api = machine.protocol::<SocketAPI>().unwrap();
                            let mut ls = api.new_socket(ProtocolFamily::INET, SocketType::Datagram, machine.clone()).await.unwrap();
                            ls.bind(Endpoint::new(ip(0), side_port)).unwrap();
                            ls.listen(64).unwrap();
                            let side_got = side_got.clone();
                            tokio::spawn(async move {
                                loop {
                                    let mut sock = match ls.accept().await {
                                        Ok(s) => s,
                                        Err(_) => break,
                                    };
                                    let side_got = side_got.clone();
                                    tokio::spawn(async move {
                                        while let Ok(m) = sock.recv_msg().await {
                                            side_got.lock().unwrap().push(m.to_vec());
                                        }
                                    });
                                }
                            });
                        }
                        if late_accept_ms > 0 {
                            tokio::time::sleep(ms(late_accept_ms)).await;
                        }
                        for _ in 0..n_conns {
                            let mut stream: TcpStream = match listener.accept().await {
                                Ok(s) => s,
                                Err(e) => {
                                    results.lock().unwrap().insert(u32::MAX, ConnResult { error: Some(format!("accept: {e:?}")), ..Default::default() });
                                    break;
                                }
                            };
                            let results = results.clone();
                            let read_sizes = read_sizes.clone();
                            let totals = totals.clone();
                            let remaining = remaining.clone();
                            let shutdown = shutdown.clone();
                            let shared = Arc::new(Mutex::new(ConnResult::default()));
                            accepted.lock().unwrap().push(shared.clone());
                            handles.push(tokio::spawn(async move {
                                let mut res = ConnResult::default();
                                let mut conn: Option<u32> = None;
                                let mut want: Option<usize> = None;
                                let mut ri = 0usize;
                                if late_reader_ms > 0 {
                                    tokio::time::sleep(ms(late_reader_ms)).await;
                                }
                                loop {
                                    if let (Some(w), true) = (want, conn.is_some()) {
                                        if res.bytes.len() >= w {
                                            break;
                                        }
                                    }
                                    let n = read_sizes[ri % read_sizes.len()];
                                    ri += 1;
                                    let got = match read_api {
                                        0 => stream.local_socket.recv(n).await,
                                        1 => stream.read_exact(n).await,
                                        _ => stream.read().await,
                                    };
                                    match got {
                                        Ok(bytes) => {
                                            res.reads.push((if read_api == 2 { usize::MAX } else { n }, bytes.len()));
                                            res.bytes.extend_from_slice(&bytes);
                                            let mut sh = shared.lock().unwrap();
                                            sh.reads.push((if read_api == 2 { usize::MAX } else { n }, bytes.len()));
                                            sh.bytes.extend_from_slice(&bytes);
                                            sh.last_ms = tokio::time::Instant::now().duration_since(t0).as_millis() as u64;
                                        }
                                        Err(e) => {
                                            res.error = Some(format!("read: {e:?}"));
                                            shared.lock().unwrap().error = res.error.clone();
                                            break;
                                        }
                                    }
                                    if conn.is_none() && res.bytes.len() >= 8 {
                                        // the first 8 bytes of every stream carry (connection id, total length) in clear
                                        let c = u32::from_be_bytes(res.bytes[0..4].try_into().unwrap());
                                        conn = Some(c);
                                        want = totals.get(&c).copied().or(Some(8));
                                    }
                                    if reader_pause_ms > 0 {
                                        tokio::time::sleep(ms(reader_pause_ms)).await;
                                    }
                                }
                                let key = conn.unwrap_or(u32::MAX - 1);
                                results.lock().unwrap().insert(key, res);
                                if remaining.fetch_sub(1, Ordering::SeqCst) == 1 {
                                    if mixed {
                                        // side datagrams sent after the first stream write may still be on the wire
                                        tokio::time::sleep(ms(200)).await;
                                    }
                                    shutdown.shut_down_with_status(ExitStatus::Status(0));
                                }
                            }));
                        }
                        let kept = if close_listener {
                            drop(listener);
                            None
                        } else {
                            Some(listener)
                        };
                        for h in handles {
                            let _ = h.await;
                        }
                        drop(kept);
                    })
                }));
                machines.push(with_app(mk_machine(server_ip), 0, || parts).arc());
            }
            for p in plans.iter().cloned() {
                let client_errors = client_errors.clone();
                let inflight_max = inflight_max.clone();
                let addr = 0x0A00_0100 + p.id;
                let mut parts = AppParts::new(1 + p.id as usize, log.clone(), t0);
                parts.body = Some(Box::new(move |machine, _me, _shutdown| {
                    Box::pin(async move {
                        let total: usize = p.writes.iter().sum();
                        let total = total.max(8);
                        let mk = |off: usize, n: usize| -> Vec<u8> {
                            (off..off + n)
                                .map(|i| {
                                    if i < 4 {
                                        p.id.to_be_bytes()[i]
                                    } else if i < 8 {
                                        (total as u32).to_be_bytes()[i - 4]
                                    } else {
                                        pat(p.id, i)
                                    }
                                })
                                .collect()
                        };
                        let mut off = 0usize;
                        let sizes: Vec<usize> = {
                            // the header needs 8 bytes in total
                            let mut s = p.writes.clone();
                            let sum: usize = s.iter().sum();
                            if sum < 8 {
                                s.push(8 - sum);
                            }
                            s
                        };
                        let mut burst = 0usize;
                        let side = {
                            let machine = machine.clone();
                            move || {
                                let machine = machine.clone();
                                async move {
                                    let api = machine.protocol::<SocketAPI>().unwrap();
                                    let mut sock = match api.new_socket(ProtocolFamily::INET, SocketType::Datagram, machine.clone()).await {
                                        Ok(s) => s,
                                        Err(_) => return,
                                    };
                                    if sock.connect(Endpoint::new(ip(server_ip), side_port)).await.is_err() {
                                        return;
                                    }
                                    for q in 0..p.side_dgrams {
                                        let mut v = vec![0xDD];
                                        v.extend_from_slice(&p.id.to_be_bytes());
                                        v.push(q as u8);
                                        v.extend((0..10).map(|i| pat(p.id ^ 0x5a5a, i + q)));
                                        let _ = sock.send(v);
                                        tokio::time::sleep(ms(1)).await;
                                    }
                                    tokio::spawn(async move {
                                        tokio::time::sleep(Duration::from_secs(100_000)).await;
                                        drop(sock);
                                    });
                                }
                            }
                        };
                        if p.side_dgrams > 0 && p.side_first {
                            side().await;
                            tokio::time::sleep(ms(20)).await;
                        }
                        if p.use_stream_api {
                            let mut stream = match TcpStream::connect(Endpoint::new(ip(server_ip), port), machine.clone()).await {
                                Ok(s) => s,
                                Err(e) => {
                                    client_errors.lock().unwrap().push(format!("conn {} connect: {e:?}", p.id));
                                    return;
                                }
                            };
                            for (i, n) in sizes.iter().enumerate() {
                                let gap = p.gaps.get(i).copied().unwrap_or(0);
                                if gap > 0 {
                                    tokio::time::sleep(ms(gap)).await;
                                    burst = 0;
                                }
                                burst += 1;
                                inflight_max.fetch_max(burst, Ordering::SeqCst);
                                if let Err(e) = stream.write(mk(off, *n)).await {
                                    client_errors.lock().unwrap().push(format!("conn {} write: {e:?}", p.id));
                                }
                                off += n;
                                if i == 0 && p.side_dgrams > 0 && !p.side_first {
                                    side().await;
                                }
                            }
                            // keep the socket alive until the run ends
                            tokio::time::sleep(Duration::from_secs(100_000)).await;
                            drop(stream);
                        } else {
                            let api = machine.protocol::<SocketAPI>().unwrap();
                            let mut sock = match api.new_socket(ProtocolFamily::INET, SocketType::Stream, machine.clone()).await {
                                Ok(s) => s,
                                Err(e) => {
                                    client_errors.lock().unwrap().push(format!("conn {} socket: {e:?}", p.id));
                                    return;
                                }
                            };
                            if let Err(e) = sock.connect(Endpoint::new(ip(server_ip), port)).await {
                                client_errors.lock().unwrap().push(format!("conn {} connect: {e:?}", p.id));
                                return;
                            }
                            for (i, n) in sizes.iter().enumerate() {
                                let gap = p.gaps.get(i).copied().unwrap_or(0);
                                if gap > 0 {
                                    tokio::time::sleep(ms(gap)).await;
                                    burst = 0;
                                }
                                burst += 1;
                                inflight_max.fetch_max(burst, Ordering::SeqCst);
                                if let Err(e) = sock.send(mk(off, *n)) {
                                    client_errors.lock().unwrap().push(format!("conn {} send: {e:?}", p.id));
                                }
                                off += n;
                                if i == 0 && p.side_dgrams > 0 && !p.side_first {
                                    side().await;
                                }
                            }
                            tokio::time::sleep(Duration::from_secs(100_000)).await;
                            drop(sock);
                        }
                        let _ = addr;
                    })
                }));
                machines.push(with_app(mk_machine(addr), 0, || parts).arc());
            }
            // the reader's own pacing is part of the loss-free duration
            let total_bytes: usize = plans.iter().map(|p| p.writes.iter().sum::<usize>()).sum();
            let reads = total_bytes / read_sizes.iter().min().copied().unwrap_or(1).max(1) + 1;
            let pacing = Duration::from_millis(reads as u64 * reader_pause_ms + late_reader_ms);
            let status = run_internet_with_timeout(&machines, Duration::from_secs(if multi { 6 } else { 120 }) + pacing).await;
            let elapsed = tokio::time::Instant::now().duration_since(t0);
            (status, elapsed, rec.snapshot())
        }
    };
    let (status, elapsed, frames) = match rt {
        Rt::Paused => run_paused(fut),
        Rt::Multi(w) => run_multi(w, fut),
    };
    let res = results.lock().unwrap().clone();
    let cerr = client_errors.lock().unwrap().clone();
    d.tally("frames_on_wire", frames.len() as u64);
    d.tally("frames_dropped_by_plan", frames.iter().filter(|f| f.dropped).count() as u64);
    d.tally(if rt == Rt::Paused { "runs_current_thread" } else { "runs_multi_thread" }, 1);
    let witness = |extra: Value| json!({"config": desc, "status": format!("{status:?}"), "elapsed": format!("{elapsed:?}"), "client_errors": cerr, "detail": extra});

    if !cerr.is_empty() {
        d.violation("client-call-failed", format!("a socket call failed on a client: {}", cerr[0]), witness(json!({})));
        return;
    }
    let mut partial_read = false;
    let mut order_fp: Vec<u8> = vec![];
    for p in &plans {
        let total: usize = p.writes.iter().sum::<usize>().max(8);
        let expected: Vec<u8> = (0..total)
            .map(|i| {
                if i < 4 {
                    p.id.to_be_bytes()[i]
                } else if i < 8 {
                    (total as u32).to_be_bytes()[i - 4]
                } else {
                    pat(p.id, i)
                }
            })
            .collect();
        let r = match res.get(&p.id).filter(|r| r.error.is_none()) {
            Some(r) => r.clone(),
            None => {
                // not completed: look at what the server had read so far on each accepted socket
                let acc: Vec<ConnResult> = accepted.lock().unwrap().iter().map(|a| a.lock().unwrap().clone()).collect();
                let mine = acc.iter().find(|a| a.bytes.len() >= 4 && a.bytes[0..4] == p.id.to_be_bytes());
                let how = if rt == Rt::Paused { "current_thread" } else { "multi_thread" };
                // The multi-thread runs are on the real clock, and their time limit is a wall-clock watchdog, not
                // a verdict: a run that was still making progress when the limit cut it off (a read returned on
                // this connection - or, for a connection not seen yet, on any - during the last two seconds) is a
                // slow run on a loaded machine and inconclusive. Only a connection on which nothing was read for
                // the last two seconds and more is reported as stalled.
                if rt != Rt::Paused {
                    let last = match mine {
                        Some(a) => a.last_ms,
                        None => acc.iter().map(|a| a.last_ms).max().unwrap_or(0),
                    };
                    let end = elapsed.as_millis() as u64;
                    if end.saturating_sub(last) < 2000 || (mine.is_none() && acc.is_empty() && end < 3000) {
                        d.inconclusive += 1;
                        d.tally("multi_thread_runs_cut_off_while_progressing", 1);
                        return;
                    }
                }
                match mine {
                    Some(a) => {
                        for (asked, got) in &a.reads {
                            if *asked != usize::MAX && got > asked {
                                d.violation("read-returned-more-than-asked", format!("recv({asked}) on connection {} returned {got} bytes", p.id), witness(json!({"connection": p.id})));
                                return;
                            }
                        }
                        let okp = a.bytes.len() <= expected.len() && expected[..a.bytes.len()] == a.bytes[..];
                        if okp {
                            d.violation(
                                format!("stream:stalled:{how}"),
                                format!("connection {}: the server read a correct prefix of {} of {} bytes and then nothing more arrived before the run ended with {:?} after {:?} (simulated timeout 120 s)", p.id, a.bytes.len(), expected.len(), status, elapsed),
                                witness(json!({"connection": p.id, "write_sizes": p.writes})),
                            );
                        } else {
                            let first = a.bytes.iter().zip(expected.iter()).position(|(x, y)| x != y).unwrap_or(0);
                            // does the stream continue correctly further on? then a piece is missing
                            let skipped = (1..200_000usize).find(|sk| first + sk + 16 <= expected.len() && first + 16 <= a.bytes.len() && a.bytes[first..first + 16] == expected[first + sk..first + sk + 16]);
                            let sig = match skipped {
                                Some(_) => "stream:bytes-lost-in-the-middle",
                                None => "stream:wrong-bytes",
                            };
                            d.violation(
                                format!("{sig}:{how}"),
                                format!("connection {}: after {} correct bytes the server read bytes that belong {} further on in the stream ({} of {} bytes read when the run ended with {:?})", p.id, first, skipped.map(|x| format!("{x} bytes")).unwrap_or("nowhere near".into()), a.bytes.len(), expected.len(), status),
                                witness(json!({"connection": p.id, "write_sizes": p.writes})),
                            );
                        }
                    }
                    None => {
                        let heads: Vec<String> = acc.iter().map(|a| crate::hex(&a.bytes[..a.bytes.len().min(8)])).collect();
                        let any_reordered = acc.iter().any(|a| a.bytes.len() >= 4 && !plans.iter().any(|q| a.bytes[0..4] == q.id.to_be_bytes()));
                        d.violation(
                            if any_reordered { format!("stream:first-bytes-are-not-the-first-write:{how}") } else { format!("stream:connection-never-seen:{how}") },
                            format!("connection {}: no accepted socket starts with its header; accepted sockets start with {:?}; run ended with {:?} after {:?}", p.id, heads, status, elapsed),
                            witness(json!({"connection": p.id, "write_sizes": p.writes})),
                        );
                    }
                }
                return;
            }
        };
        for (asked, got) in &r.reads {
            if *asked != usize::MAX && got > asked {
                d.violation("read-returned-more-than-asked", format!("recv({asked}) on connection {} returned {got} bytes", p.id), witness(json!({"connection": p.id, "reads_head": r.reads.iter().take(20).collect::<Vec<_>>()})));
                return;
            }
            if *asked != usize::MAX && got < asked && *got > 0 {
                partial_read = true;
            }
        }
        if let Some(e) = &r.error {
            d.violation("server-read-failed", format!("reading connection {} failed after {} of {} bytes: {e}", p.id, r.bytes.len(), total), witness(json!({"connection": p.id})));
            return;
        }
        if r.bytes != expected {
            // classify
            let first = r.bytes.iter().zip(expected.iter()).position(|(a, b)| a != b).unwrap_or(r.bytes.len().min(expected.len()));
            let mut sorted_ok = false;
            if r.bytes.len() == expected.len() {
                let mut a = r.bytes.clone();
                let mut b = expected.clone();
                a.sort();
                b.sort();
                sorted_ok = a == b;
            }
            let foreign = r.bytes.len() >= first + 4 && plans.iter().any(|q| q.id != p.id && (first..first + 4).all(|i| i >= 8 && r.bytes[i] == pat(q.id, i)));
            let sig = if foreign {
                "stream:bytes-of-another-connection"
            } else if sorted_ok {
                "stream:writes-reordered"
            } else if r.bytes.len() < expected.len() {
                "stream:bytes-lost"
            } else if r.bytes.len() > expected.len() {
                "stream:bytes-duplicated"
            } else {
                "stream:bytes-corrupted"
            };
            // which write does the first wrong byte belong to?
            let mut acc = 0;
            let mut widx = 0;
            for (i, w) in p.writes.iter().enumerate() {
                if first < acc + w {
                    widx = i;
                    break;
                }
                acc += w;
            }
            d.violation(
                format!("{sig}:{}", if rt == Rt::Paused { "current_thread" } else { "multi_thread" }),
                format!(
                    "connection {}: the server read {} bytes, the client wrote {}; first difference at stream offset {first} (inside write #{widx} of {}); runtime {rt:?}",
                    p.id,
                    r.bytes.len(),
                    expected.len(),
                    p.writes.len()
                ),
                witness(json!({"connection": p.id, "write_sizes": p.writes})),
            );
            return;
        }
        order_fp.extend_from_slice(&(r.reads.len() as u32).to_be_bytes());
    }
    if status != ExitStatus::Status(0) {
        d.violation("run-did-not-end-normally", format!("all streams were read completely but the run returned {status:?}"), witness(json!({})));
        return;
    }
    let pacing_allowance = {
        let total_bytes: usize = plans.iter().map(|p| p.writes.iter().sum::<usize>()).sum();
        let reads = total_bytes / read_sizes.iter().min().copied().unwrap_or(1).max(1) + 1;
        Duration::from_millis(reads as u64 * reader_pause_ms + late_reader_ms)
    };
    if rt == Rt::Paused && elapsed > Duration::from_secs(120) + pacing_allowance {
        d.violation("bounded-progress", format!("the run needed {elapsed:?} of simulated time"), witness(json!({})));
        return;
    }
    if mixed {
        // the side datagrams: each intact, from a client that sent it, at most once without duplication on the wire,
        // and - when nothing was dropped - every one of them
        let got = side_got.lock().unwrap().clone();
        let mut seen: HashMap<(u32, u8), usize> = HashMap::new();
        for g in &got {
            let ok = g.len() == 16 && g[0] == 0xDD && {
                let id = u32::from_be_bytes(g[1..5].try_into().unwrap());
                let q = g[5] as usize;
                plans.iter().any(|p| p.id == id && q < p.side_dgrams) && g[6..].iter().enumerate().all(|(i, b)| *b == pat(id ^ 0x5a5a, i + q))
            };
            if !ok {
                d.violation("mixed:datagram-not-intact", format!("the server's datagram socket received {} bytes that are no datagram any client sent: {}", g.len(), crate::hex(&g[..g.len().min(24)])), witness(json!({})));
                return;
            }
            *seen.entry((u32::from_be_bytes(g[1..5].try_into().unwrap()), g[5])).or_insert(0) += 1;
        }
        let sent: usize = plans.iter().map(|p| p.side_dgrams).sum();
        d.tally("mixed_transport_runs", 1);
        d.tally("side_datagrams_sent", sent as u64);
        d.tally("side_datagrams_received", got.len() as u64);
        if !faults {
            if let Some(((id, q), n)) = seen.iter().find(|(_, n)| **n > 1) {
                d.violation("mixed:datagram-duplicated", format!("side datagram {q} of client {id} was delivered {n} times without duplication on the wire"), witness(json!({})));
                return;
            }
            if rt == Rt::Paused && seen.len() != sent {
                let missing: Vec<String> = plans.iter().flat_map(|p| (0..p.side_dgrams).filter(|q| !seen.contains_key(&(p.id, *q as u8))).map(move |q| format!("client {} #{} ({})", p.id, q, if p.side_first { "sent before the stream connected" } else { "sent after the first stream write" }))).collect();
                d.violation("mixed:datagram-lost-on-lossless-network", format!("{} of {} datagrams sent next to the streams arrived although nothing was dropped; missing: {}", seen.len(), sent, missing.join(", ")), witness(json!({})));
                return;
            }
        }
    }
    if inflight_max.load(Ordering::SeqCst) >= 2 && partial_read {
        d.nontrivial(crate::fnv_str(&desc.to_string()));
    }
    if let Rt::Multi(_) = rt {
        d.saw("multi_thread_read_patterns", format!("{:016x}", crate::fnv(&order_fp)));
    }
    if case == 0 && k < 2 {
        d.sample(json!({"config": desc, "status": format!("{status:?}"), "simulated_elapsed": format!("{elapsed:?}"), "frames": frames.len()}));
    }
}

fn datagram_scenario(env: &Env, k: u64, case: u64, rng: &mut rand::rngs::SmallRng, d: &mut Delta, rt: Rt) {
    d.evaluations += 1;
    let n_clients = rng.gen_range(1..=6usize);
    let mtu = *rng.pick(&[100u16, 576, 1500]);
    let max_payload = mtu as usize - 28;
    let jitter = *rng.pick(&[0u64, 1, 5]);
    let multi = rt != Rt::Paused;
    let lossy = rt == Rt::Paused && rng.chance(1, 2);
    let per_client: Vec<Vec<usize>> = (0..n_clients)
        .map(|_| (0..rng.gen_range(1..=12)).map(|_| *rng.pick(&[1usize, 2, 9, 40, max_payload, max_payload - 1]).min(&max_payload).max(&9)).collect())
        .collect();
    let read_n = *rng.pick(&[4usize, 9, 100, 65536]);
    let desc = json!({"kind": "datagram", "runtime": format!("{rt:?}"), "clients": n_clients, "mtu": mtu, "jitter_ms": jitter, "lossy": lossy, "datagram_sizes": per_client, "server_read_size": read_n, "scenario": k, "case": case});
    // (client, seq) -> payload ; server records per accepted socket the datagrams it read
    let received: Arc<Mutex<Vec<(usize, Vec<Vec<u8>>, Vec<(usize, usize)>)>>> = Arc::new(Mutex::new(vec![])); // (socket index, datagrams, reads)
    let client_got: Arc<Mutex<HashMap<u32, Vec<Vec<u8>>>>> = Arc::new(Mutex::new(HashMap::new()));
    let server_ip = 0x0A00_0001u32;
    let port = 5353u16;
    let mkpayload = |c: u32, s: u32, n: usize| -> Vec<u8> {
        let mut v = vec![];
        v.extend_from_slice(&c.to_be_bytes());
        v.extend_from_slice(&s.to_be_bytes());
        v.push(0xD6);
        while v.len() < n {
            v.push(pat(c * 1000 + s, v.len()));
        }
        v
    };
    let fut = {
        let per_client = per_client.clone();
        let received = received.clone();
        let client_got = client_got.clone();
        async move {
            let mut b = NetworkBuilder::new().mtu(mtu);
            if jitter > 0 {
                b = b.latency(Latency::variable(ms(0), ms(jitter)));
            }
            let net = b.build();
            let mut cnt = 0u64;
            let rec = Recorder::new(Box::new(move |f: &FrameRec| {
                if !lossy || f.kind != Kind::Ipv4 {
                    return Verdict::PASS;
                }
                cnt += 1;
                if cnt % 5 == 3 {
                    Verdict::Drop
                } else {
                    Verdict::PASS
                }
            }));
            net.set_verif_hook(rec.clone());
            let t0 = tokio::time::Instant::now();
            let log: Log = Arc::new(Mutex::new(vec![]));
            let table: IpTable<Recipient> = [("0.0.0.0/0", Recipient::new(0, None))].into_iter().collect();
            let mk_machine = |addr: u32| Machine::new().with(Udp::new()).with(Tcp::new()).with(Ipv4::new(table.clone())).with(Pci::new([net.clone()])).with(SocketAPI::new(Some(ip(addr))));
            let mut machines = vec![];
            let n_conns = per_client.len();
            {
                let received = received.clone();
                let mut parts = AppParts::new(0, log.clone(), t0);
                parts.body = Some(Box::new(move |machine, _me, shutdown| {
                    Box::pin(async move {
                        let api = machine.protocol::<SocketAPI>().unwrap();
                        let mut ls = api.new_socket(ProtocolFamily::INET, SocketType::Datagram, machine.clone()).await.unwrap();
                        ls.bind(Endpoint::new(ip(0), port)).unwrap();
                        ls.listen(64).unwrap();
                        let mut handles = vec![];
                        for si in 0..n_conns {
                            let mut sock = match tokio::time::timeout(if multi { ms(400) } else { Duration::from_secs(3) }, ls.accept()).await {
                                Ok(Ok(s)) => s,
                                _ => break, // the first datagram of a client may have been lost
                            };
                            let received = received.clone();
                            handles.push(tokio::spawn(async move {
                                let mut dgrams: Vec<Vec<u8>> = vec![];
                                let mut reads = vec![];
                                // read until quiet for 2 s
                                loop {
                                    let r = tokio::time::timeout(if multi { ms(300) } else { Duration::from_secs(2) }, async {
                                        // a datagram is one message; recv(n) may split it, so reassemble by the length in the header
                                        sock.recv(read_n).await
                                    })
                                    .await;
                                    match r {
                                        Ok(Ok(bytes)) => {
                                            reads.push((read_n, bytes.len()));
                                            dgrams.push(bytes);
                                            // answer so that the client side of "connected peer only" is exercised as well
                                            let _ = sock.send(vec![0xAC; 3]);
                                        }
                                        _ => break,
                                    }
                                }
                                received.lock().unwrap().push((si, dgrams, reads));
                            }));
                        }
                        for h in handles {
                            let _ = h.await;
                        }
                        shutdown.shut_down_with_status(ExitStatus::Status(0));
                    })
                }));
                machines.push(with_app(mk_machine(server_ip), 0, || parts).arc());
            }
            for (c, sizes) in per_client.iter().cloned().enumerate() {
                let client_got = client_got.clone();
                let mut parts = AppParts::new(1 + c, log.clone(), t0);
                parts.body = Some(Box::new(move |machine, _me, _shutdown| {
                    Box::pin(async move {
                        let api = machine.protocol::<SocketAPI>().unwrap();
                        let mut sock = api.new_socket(ProtocolFamily::INET, SocketType::Datagram, machine.clone()).await.unwrap();
                        if sock.connect(Endpoint::new(ip(server_ip), port)).await.is_err() {
                            return;
                        }
                        for (s, n) in sizes.iter().enumerate() {
                            let _ = sock.send(mkpayload(c as u32, s as u32, *n));
                            tokio::time::sleep(ms(1)).await;
                        }
                        // collect answers for a while
                        let mut got = vec![];
                        loop {
                            match tokio::time::timeout(if multi { ms(200) } else { Duration::from_secs(1) }, sock.recv_msg()).await {
                                Ok(Ok(m)) => got.push(m.to_vec()),
                                _ => break,
                            }
                        }
                        client_got.lock().unwrap().insert(c as u32, got);
                        tokio::time::sleep(Duration::from_secs(100_000)).await;
                        drop(sock);
                    })
                }));
                machines.push(with_app(mk_machine(0x0A00_0100 + c as u32), 0, || parts).arc());
            }
            let status = run_internet_with_timeout(&machines, Duration::from_secs(if multi { 6 } else { 60 })).await;
            (status, rec.snapshot())
        }
    };
    let (status, frames) = match rt {
        Rt::Paused => run_paused(fut),
        Rt::Multi(w) => run_multi(w, fut),
    };
    let recv = received.lock().unwrap().clone();
    d.tally("datagram_frames", frames.len() as u64);
    let witness = |extra: Value| json!({"config": desc, "status": format!("{status:?}"), "detail": extra});
    let mut seen: HashMap<(u32, u32), usize> = HashMap::new();
    for (si, dgrams, reads) in &recv {
        let mut owner: Option<u32> = None;
        for (asked, got) in reads {
            if got > asked {
                d.violation("read-returned-more-than-asked", format!("recv({asked}) on a datagram socket returned {got} bytes"), witness(json!({"socket": si})));
                return;
            }
        }
        // with read_n smaller than a datagram the remainder comes with the next recv: reassemble greedily
        let mut i = 0;
        let flat: Vec<u8> = dgrams.iter().flatten().cloned().collect();
        while i + 9 <= flat.len() {
            let c = u32::from_be_bytes(flat[i..i + 4].try_into().unwrap());
            let s = u32::from_be_bytes(flat[i + 4..i + 8].try_into().unwrap());
            let want_len = per_client.get(c as usize).and_then(|v| v.get(s as usize)).copied();
            let want_len = match want_len {
                Some(l) if flat[i + 8] == 0xD6 => l,
                _ => {
                    d.violation("datagram-corrupted", format!("server socket {si} read bytes that are not the start of any datagram that was sent (client {c} seq {s})"), witness(json!({"socket": si})));
                    return;
                }
            };
            if i + want_len > flat.len() || flat[i..i + want_len] != mkpayload(c, s, want_len)[..] {
                d.violation("datagram-not-intact", format!("datagram (client {c}, seq {s}, {want_len} bytes) arrived truncated or altered on server socket {si}"), witness(json!({"socket": si})));
                return;
            }
            match owner {
                None => owner = Some(c),
                Some(o) if o != c => {
                    d.violation("datagram-cross-talk", format!("server socket {si}, connected to client {o}, received a datagram of client {c}"), witness(json!({"socket": si})));
                    return;
                }
                _ => {}
            }
            *seen.entry((c, s)).or_insert(0) += 1;
            i += want_len;
        }
        if i != flat.len() {
            d.violation("datagram-not-intact", format!("server socket {si} read {} stray bytes", flat.len() - i), witness(json!({"socket": si})));
            return;
        }
    }
    for ((c, s), n) in &seen {
        if *n > 1 {
            d.violation("datagram-duplicated", format!("datagram (client {c}, seq {s}) was delivered {n} times without any duplication on the wire"), witness(json!({})));
            return;
        }
    }
    if !lossy && rt == Rt::Paused {
        let total: usize = per_client.iter().map(|v| v.len()).sum();
        if seen.len() != total {
            d.violation("datagram-lost-on-lossless-network", format!("{} of {} datagrams arrived although nothing was dropped", seen.len(), total), witness(json!({})));
            return;
        }
    }
    // client side: answers only from the server, 3 bytes each
    for (c, got) in client_got.lock().unwrap().iter() {
        for g in got {
            if g != &vec![0xAC; 3] {
                d.violation("datagram-cross-talk", format!("client {c} received {:?} on its connected socket", &g[..g.len().min(12)]), witness(json!({})));
                return;
            }
        }
    }
    d.tally("datagrams_delivered", seen.len() as u64);
    if n_clients >= 2 && seen.len() >= 2 {
        d.nontrivial(crate::fnv_str(&desc.to_string()));
    }
    let _ = env;
}

fn run(env: &Env, k: u64, d: &mut Delta) {
    let mut rng = scenario_rng("C02", env.seed, k);
    let cases = env.tier.pick(6, 10);
    for case in 0..cases {
        let rt = match (k + case) % 4 {
            0 | 1 => Rt::Paused,
            2 => Rt::Multi(*rng.pick(&[2usize, 4])),
            _ => Rt::Multi(16),
        };
        if case % 3 == 2 {
            datagram_scenario(env, k, case, &mut rng, d, rt);
        } else {
            stream_scenario(env, k, case, &mut rng, d, rt);
        }
    }
}
