//! C05 — the simulated link delivers frames as configured, to the right taps.

use crate::net::*;
use crate::{scenario_rng, Delta, Env, PropDef, RngExt};
use elvis_core::{
    network::{Baud, Latency, Mac, NetworkBuilder, Throughput},
    protocols::Pci,
    run_internet, Machine, Message, Network,
};
use rand::Rng;
use serde_json::{json, Value};
use std::{
    collections::{HashMap, HashSet},
    sync::{Arc, Mutex},
    time::Duration,
};

pub static DEF: PropDef = PropDef {
    id: "C05",
    level: "exploration",
    total: |t| t.pick(384, 4800),
    run,
    rule: "generated configurations: 1..3 networks (MTU in {68,100,1500,65535}; latency none/constant/variable 0..50 ms; throughput unlimited/constant/variable), 2..8 machines with 1..3 taps each (a machine may be attached to the same network twice), 1..200 frames sent concurrently from all machines at random virtual times to unicast / unknown / broadcast destinations with sizes MTU-1, MTU, MTU+1 and random; a harness link-level protocol on every machine records every hand-over (slot, source, destination, mtu, payload, virtual time), the H4 hook records every frame on the wire. Run on the paused clock so times are exact. Non-trivial = configuration with >=1 broadcast, >=1 machine that is neither sender nor destination of some unicast frame, and >=1 frame of exactly MTU or MTU+1 bytes; distinct by configuration hash.",
    assumptions: &[
        "delivery of a broadcast frame back to the sender's own tap is recorded but not judged (the statement says 'every other tap')",
        "timing: only lower bounds are judged (latency base; for throughput the sum of whole-millisecond serialisation times at the maximal configured rate), queueing may add delay",
    ],
    may_exit_process: true,
    watchdog_s: 300,
    nt_floor: |t| t.pick(30, 500),
};

#[derive(Clone, Debug)]
enum Dest {
    Unicast(Mac),
    Unknown(Mac),
    BroadcastNone,
    BroadcastMac,
}

#[derive(Clone, Debug)]
struct Planned {
    id: u64,
    machine: usize,
    slot: u32,
    net: usize,
    at_ms: u64,
    dest: Dest,
    len: usize,
}

#[derive(Clone, Debug)]
struct Sent {
    id: u64,
    ok: bool,
    err: String,
    t: Duration,
}

struct NetCfg {
    mtu: u16,
    lat_base: u64,
    lat_rand: u64,
    thr_base: u64,
    thr_rand: u64,
}

fn scenario(env: &Env, k: u64, case: u64, rng: &mut rand::rngs::SmallRng, d: &mut Delta) {
    d.evaluations += 1;
    let n_nets = rng.gen_range(1..=3usize);
    let mut cfgs = vec![];
    let mut nets: Vec<Arc<Network>> = vec![];
    for _ in 0..n_nets {
        let cfg = NetCfg {
            mtu: *rng.pick(&[68u16, 100, 1500, 65535]),
            lat_base: *rng.pick(&[0u64, 0, 1, 7, 50]),
            lat_rand: *rng.pick(&[0u64, 0, 3, 20]),
            thr_base: *rng.pick(&[0u64, 0, 1_000, 50_000, 1_000_000]),
            thr_rand: *rng.pick(&[0u64, 0, 500]),
        };
        let mut b = NetworkBuilder::new().mtu(cfg.mtu);
        if cfg.lat_base > 0 || cfg.lat_rand > 0 {
            b = b.latency(if cfg.lat_rand > 0 { Latency::variable(ms(cfg.lat_base), ms(cfg.lat_rand)) } else { Latency::constant(ms(cfg.lat_base)) });
        }
        if cfg.thr_base > 0 {
            b = b.throughput(if cfg.thr_rand > 0 {
                Throughput::variable(Baud::bytes_per_second(cfg.thr_base), Baud::bytes_per_second(cfg.thr_rand))
            } else {
                Throughput::constant(Baud::bytes_per_second(cfg.thr_base))
            });
        }
        nets.push(b.build());
        cfgs.push(cfg);
    }
    let n_machines = rng.gen_range(2..=8usize);
    let log: Log = Arc::new(Mutex::new(vec![]));
    let sends: Arc<Mutex<Vec<Sent>>> = Arc::new(Mutex::new(vec![]));
    // attachments
    let mut attach: Vec<Vec<usize>> = vec![];
    for m in 0..n_machines {
        let slots = rng.gen_range(1..=3usize);
        let mut v = vec![];
        for s in 0..slots {
            // make sure network 0 has at least two taps
            v.push(if m < 2 && s == 0 { 0 } else { rng.gen_range(0..n_nets) });
        }
        attach.push(v);
    }
    // MACs are handed out per network in creation order: compute what we expect, then read the real ones
    let mut pcis: Vec<Pci> = vec![];
    for m in 0..n_machines {
        pcis.push(Pci::new(attach[m].iter().map(|&n| nets[n].clone())));
    }
    let macs: Vec<Vec<Mac>> = pcis.iter().map(|p| p.mac_addresses().collect()).collect();
    // per network: tap list (machine, slot, mac)
    let mut taps: Vec<Vec<(usize, u32, Mac)>> = vec![vec![]; n_nets];
    for m in 0..n_machines {
        for (s, &n) in attach[m].iter().enumerate() {
            taps[n].push((m, s as u32, macs[m][s]));
        }
    }
    let desc = json!({
        "networks": cfgs.iter().map(|c| json!({"mtu": c.mtu, "latency_ms": [c.lat_base, c.lat_rand], "throughput_Bps": [c.thr_base, c.thr_rand]})).collect::<Vec<_>>(),
        "attachments": attach,
        "scenario": k, "case": case,
    });
    // distinct MACs per network
    for (n, t) in taps.iter().enumerate() {
        let set: HashSet<Mac> = t.iter().map(|x| x.2).collect();
        if set.len() != t.len() {
            d.violation("duplicate-mac", format!("two taps on network {n} share a hardware address: {:?}", t), desc.clone());
            return;
        }
        if set.contains(&Network::BROADCAST_MAC) {
            d.violation("broadcast-mac-assigned", format!("a tap on network {n} was given the broadcast address"), desc.clone());
            return;
        }
    }
    // plan
    // one case in 32 is a flood: more than a thousand frames offered at one instant, so that a throughput-limited
    // wire has a four-digit backlog (nothing in the statement lets a loss-free network shed load)
    let flood = rng.chance(1, 32);
    let n_frames = if flood { rng.gen_range(1050..=1700usize) } else { *rng.pick(&[1usize, 5, 20, 60, 200]) };
    let burst = flood || rng.chance(1, 3);
    let mut plan: Vec<Planned> = vec![];
    for id in 0..n_frames as u64 {
        let machine = rng.gen_range(0..n_machines);
        let slot = rng.gen_range(0..attach[machine].len());
        let net = attach[machine][slot];
        let mtu = cfgs[net].mtu as usize;
        let others: Vec<Mac> = taps[net].iter().filter(|t| !(t.0 == machine && t.1 == slot as u32)).map(|t| t.2).collect();
        let dest = match rng.gen_range(0..10) {
            0 => Dest::Unknown(rng.gen_range(1000..2000)),
            1 | 2 => Dest::BroadcastNone,
            3 => Dest::BroadcastMac,
            _ if !others.is_empty() => Dest::Unicast(*rng.pick(&others)),
            _ => Dest::BroadcastNone,
        };
        let len = match rng.gen_range(0..8) {
            0 => mtu - 1,
            1 => mtu,
            2 => (mtu + 1).min(70000),
            3 => 8,
            _ => rng.gen_range(8..=mtu.min(if flood { 300 } else { 3000 })),
        };
        plan.push(Planned { id, machine, slot: slot as u32, net, at_ms: if burst { 10 } else { rng.gen_range(0..500) }, dest, len });
    }
    // long enough for every throughput-limited queue to drain completely
    let mut horizon: u64 = 10;
    for (n, c) in cfgs.iter().enumerate() {
        if c.thr_base > 0 {
            let total_ms: u64 = plan.iter().filter(|p| p.net == n).map(|p| (p.len as u64 * 1000) / c.thr_base + 1).sum();
            horizon = horizon.max(10 + total_ms / 1000 * 2 + 10);
        }
    }
    let rec = {
        let nets = nets.clone();
        let plan = plan.clone();
        let log = log.clone();
        let sends = sends.clone();
        run_paused(async move {
            let rec = Recorder::passive();
            for n in &nets {
                n.set_verif_hook(rec.clone());
            }
            let t0 = tokio::time::Instant::now();
    // machines
    let mut machines: Vec<Arc<Machine>> = vec![];
    for (m, pci) in pcis.into_iter().enumerate() {
        let mut mine: Vec<Planned> = plan.iter().filter(|p| p.machine == m).cloned().collect();
        mine.sort_by_key(|p| p.at_ms);
        let sends2 = sends.clone();
        let mut parts = AppParts::new(m, log.clone(), t0);
        parts.body = Some(Box::new(move |machine, _me, shutdown| {
            Box::pin(async move {
                let pci = machine.protocol::<Pci>().unwrap();
                let mut now = 0u64;
                for p in mine {
                    if p.at_ms > now {
                        tokio::time::sleep(ms(p.at_ms - now)).await;
                        now = p.at_ms;
                    }
                    let mut bytes = p.id.to_be_bytes().to_vec();
                    bytes.resize(p.len, (p.id % 251) as u8);
                    let dest = match &p.dest {
                        Dest::Unicast(x) | Dest::Unknown(x) => Some(*x),
                        Dest::BroadcastNone => None,
                        Dest::BroadcastMac => Some(Network::BROADCAST_MAC),
                    };
                    let t = tokio::time::Instant::now().duration_since(t0);
                    let r = pci.open(p.slot).send_pci(Message::new(bytes), dest, app_type_id(0));
                    sends2.lock().unwrap().push(Sent { id: p.id, ok: r.is_ok(), err: r.err().map(|e| format!("{e:?}")).unwrap_or_default(), t });
                }
                if machine.protocol::<App<0>>().map(|a| a.machine_index) == Some(0) {
                    // generous tail so that throughput-limited queues drain, then end the run
                    tokio::time::sleep(Duration::from_secs(horizon)).await;
                    shutdown.shut_down();
                }
            })
        }));
        machines.push(with_app(Machine::new().with(pci), 0, || parts).arc());
    }
            let _ = run_internet(&machines, Some(Duration::from_secs(horizon + 3600))).await;
            rec
        })
    };
    let frames = rec.snapshot();
    let events = log.lock().unwrap().clone();
    let sent = sends.lock().unwrap().clone();
    d.tally("frames_on_wire", frames.len() as u64);
    d.tally("handovers_to_protocol", events.len() as u64);
    let witness = |extra: Value| json!({"config": desc, "detail": extra});
    if sent.len() != plan.len() {
        d.inconclusive += 1;
        d.tally("scenario_incomplete", 1);
        return;
    }
    let by_id: HashMap<u64, &Sent> = sent.iter().map(|s| (s.id, s)).collect();
    let id_of = |b: &[u8]| -> Option<u64> { b.get(..8).map(|x| u64::from_be_bytes(x.try_into().unwrap())) };
    let mut saw_boundary = false;
    let mut saw_broadcast = false;
    let mut saw_third_party = false;
    for p in &plan {
        let s = by_id[&p.id];
        let mtu = cfgs[p.net].mtu as usize;
        let on_wire: Vec<&FrameRec> = frames.iter().filter(|f| id_of(&f.bytes) == Some(p.id)).collect();
        let delivered: Vec<&DemuxEvent> = events.iter().filter(|e| id_of(&e.payload) == Some(p.id)).collect();
        if p.len == mtu || p.len == mtu + 1 {
            saw_boundary = true;
        }
        if p.len > mtu {
            if s.ok {
                d.violation("oversize-frame-accepted", format!("a {}-byte frame was accepted on a network with MTU {mtu}", p.len), witness(json!({"frame": format!("{p:?}")})));
                return;
            }
            if !s.err.contains("Mtu") {
                d.violation("oversize-frame-wrong-error", format!("oversize frame refused with {}", s.err), witness(json!({"frame": format!("{p:?}")})));
                return;
            }
            if !on_wire.is_empty() || !delivered.is_empty() {
                d.violation("oversize-frame-on-wire", format!("a refused {}-byte frame (MTU {mtu}) still appeared on the wire / at a tap", p.len), witness(json!({"frame": format!("{p:?}")})));
                return;
            }
            continue;
        }
        if !s.ok {
            d.violation("fitting-frame-refused", format!("a {}-byte frame was refused on a network with MTU {mtu}: {}", p.len, s.err), witness(json!({"frame": format!("{p:?}")})));
            return;
        }
        if on_wire.len() != 1 {
            d.violation("frame-count-on-wire", format!("frame {} appears {} times on the wire", p.id, on_wire.len()), witness(json!({"frame": format!("{p:?}")})));
            return;
        }
        let f = on_wire[0];
        let sender_mac = macs[p.machine][p.slot as usize];
        if f.sender != sender_mac || f.bytes.len() != p.len {
            d.violation("frame-altered-on-wire", format!("frame {} on the wire has sender {} len {} (sent by {} with {} bytes)", p.id, f.sender, f.bytes.len(), sender_mac, p.len), witness(json!({"frame": format!("{p:?}")})));
            return;
        }
        // expected receivers
        let net_taps = &taps[p.net];
        let expected: Vec<(usize, u32)> = match &p.dest {
            Dest::Unicast(m) => net_taps.iter().filter(|t| t.2 == *m).map(|t| (t.0, t.1)).collect(),
            Dest::Unknown(_) => vec![],
            Dest::BroadcastNone | Dest::BroadcastMac => {
                saw_broadcast = true;
                net_taps.iter().filter(|t| !(t.0 == p.machine && t.1 == p.slot)).map(|t| (t.0, t.1)).collect()
            }
        };
        if let Dest::Unicast(_) = p.dest {
            if net_taps.len() >= 3 {
                saw_third_party = true;
            }
        }
        let is_bcast = matches!(p.dest, Dest::BroadcastNone | Dest::BroadcastMac);
        let mut got: Vec<(usize, u32)> = vec![];
        for e in &delivered {
            let info = match e.pci {
                Some(i) => i,
                None => {
                    d.violation("missing-link-info", "a frame was handed to the protocol without link information in Control".to_string(), witness(json!({"frame": format!("{p:?}")})));
                    return;
                }
            };
            // the sender's own tap hearing its own broadcast is not judged
            if is_bcast && e.machine == p.machine && info.slot == p.slot {
                d.tally("own_broadcast_heard", 1);
                continue;
            }
            got.push((e.machine, info.slot));
            let mut bytes = p.id.to_be_bytes().to_vec();
            bytes.resize(p.len, (p.id % 251) as u8);
            let want_dest = match &p.dest {
                Dest::Unicast(x) | Dest::Unknown(x) => Some(*x),
                Dest::BroadcastNone => None,
                Dest::BroadcastMac => Some(Network::BROADCAST_MAC),
            };
            if e.payload != bytes {
                d.violation("payload-altered", format!("frame {} arrived with a different payload", p.id), witness(json!({"frame": format!("{p:?}")})));
                return;
            }
            if info.source != sender_mac || info.destination != want_dest || info.mtu as usize != mtu {
                d.violation(
                    "link-info-wrong",
                    format!("frame {} arrived with link info {:?}; expected source {} destination {:?} mtu {}", p.id, info, sender_mac, want_dest, mtu),
                    witness(json!({"frame": format!("{p:?}")})),
                );
                return;
            }
            // timing lower bound: latency base + own serialisation time at the fastest configured rate
            let c = &cfgs[p.net];
            let ser_ms = if c.thr_base > 0 { (p.len as u64 * 1000) / (c.thr_base + c.thr_rand) } else { 0 };
            let min = ms(c.lat_base + ser_ms);
            let took = e.time.saturating_sub(s.t);
            if took < min {
                d.violation(
                    "delivered-too-early",
                    format!("frame {} of {} bytes was delivered {:?} after it was sent; latency base {} ms + serialisation {} ms", p.id, p.len, took, c.lat_base, ser_ms),
                    witness(json!({"frame": format!("{p:?}")})),
                );
                return;
            }
        }
        let mut exp_sorted = expected.clone();
        exp_sorted.sort();
        got.sort();
        if got != exp_sorted {
            let kind = match p.dest {
                Dest::Unicast(_) => "unicast",
                Dest::Unknown(_) => "unknown-destination",
                _ => "broadcast",
            };
            let which = if got.len() > exp_sorted.len() || got.iter().any(|g| !exp_sorted.contains(g)) { "extra-or-wrong-receiver" } else { "missing-receiver" };
            d.violation(
                format!("delivery-set:{kind}:{which}"),
                format!("frame {} ({kind}) was handed to (machine,slot) {:?}, expected exactly {:?}", p.id, got, exp_sorted),
                witness(json!({"frame": format!("{p:?}")})),
            );
            return;
        }
    }
    // aggregate throughput bound per network: last delivery no earlier than first send + sum of serialisation times
    for (n, c) in cfgs.iter().enumerate() {
        if c.thr_base == 0 {
            continue;
        }
        let on_net: Vec<&Planned> = plan.iter().filter(|p| p.net == n && p.len <= c.mtu as usize).collect();
        if on_net.len() < 2 {
            continue;
        }
        let first_send = on_net.iter().map(|p| by_id[&p.id].t).min().unwrap();
        let total_ser: u64 = on_net.iter().map(|p| (p.len as u64 * 1000) / (c.thr_base + c.thr_rand)).sum();
        // frames to unknown destinations are serialised too but never observed; use the last event of any kind on this net
        let last_wire_delivery = frames.iter().filter(|f| f.net_id == nets[n].verif_id()).flat_map(|f| f.deliveries.iter().map(|x| x.1)).max();
        let unknown_only = on_net.iter().all(|p| matches!(p.dest, Dest::Unknown(_)));
        if let (Some(last), false) = (last_wire_delivery, unknown_only) {
            // frames sent after the last observable one do not count
            let observable_ser: u64 = on_net.iter().filter(|p| !matches!(p.dest, Dest::Unknown(_))).map(|p| (p.len as u64 * 1000) / (c.thr_base + c.thr_rand)).sum();
            let _ = total_ser;
            let min = first_send + ms(observable_ser) + ms(c.lat_base);
            d.saw("throughput_bound_checked", format!("{}", on_net.len().min(9)));
            if last + ms(1) < min && !burst_spread(&on_net) {
                d.violation(
                    "faster-than-throughput",
                    format!("network {n}: {} observable frames needing {} ms of serialisation at <= {} B/s were all delivered by {:?}, first send at {:?}", on_net.len(), observable_ser, c.thr_base + c.thr_rand, last, first_send),
                    witness(json!({"network": n})),
                );
                return;
            }
        }
    }
    if saw_boundary && saw_broadcast && saw_third_party {
        d.nontrivial(crate::fnv_str(&desc.to_string()) ^ crate::fnv_str(&format!("{plan:?}")));
    }
    if case == 0 && k < 2 {
        d.sample(json!({"config": desc, "frames_planned": plan.len(), "first_frames": plan.iter().take(5).map(|p| format!("{p:?}")).collect::<Vec<_>>(), "on_wire": frames.len(), "handovers": events.len()}));
    }
    let _ = env;
}

/// The aggregate bound only holds when all frames were offered at once; frames spread over time may idle the link in between.
fn burst_spread(on_net: &[&Planned]) -> bool {
    let a = on_net.iter().map(|p| p.at_ms).min().unwrap();
    let b = on_net.iter().map(|p| p.at_ms).max().unwrap();
    a != b
}

fn run(env: &Env, k: u64, d: &mut Delta) {
    let mut rng = scenario_rng("C05", env.seed, k);
    for case in 0..env.tier.pick(16, 24) {
        scenario(env, k, case, &mut rng, d);
    }
}
