//! C08 — header codecs round-trip and match the RFC wire formats bit for bit.
//! (Also provides the packet generators C18 reuses in the compute_checksum build.)

use crate::model::wire::{self, Ip4, Tcp};
use crate::{catch, fnv_str, hex, scenario_rng, split_panic, Delta, Env, PropDef, RngExt};
use elvis_core::protocols::{
    arp::arp_parsing::{ArpPacket, Operation},
    dhcp::dhcp_parsing::{DhcpMessage, MessageType},
    dns::dns_parsing::{DnsHeader, DnsMessage, DnsMessageType, DnsQuestion, DnsResourceRecord},
    ipv4::{ipv4_parsing::Ipv4Header, Ipv4Address},
    tcp::{verif::TcpControl, TcpHeader},
    udp::{build_udp_header, UdpHeader},
    BytesExt,
};
use rand::Rng;
use serde_json::json;

pub static DEF: PropDef = PropDef {
    id: "C08",
    level: "exploration",
    total: |t| t.pick(192, 9600),
    run,
    rule: "per codec (IPv4, UDP, TCP, ARP, DNS, DHCP, BytesExt): (a) generated field values (boundary-biased full ranges: all 64 TCP flag sets, DF/MF x offsets 0..8191, TOS, TTL, protocol, ids, addresses, 48-bit MACs, DHCP types 1..7, strings without terminator, DNS names without delimiter, payloads 0..65507) are encoded, decoded and compared field by field; (b) byte strings obtained by mutating valid encodings (bit flips, truncation, field extremes) that the decoder accepts are re-encoded and compared with the consumed prefix; (c) IPv4/UDP/TCP encodings are compared byte for byte with etherparse 0.10 and with a hand-written packer, and the decoders are fed the reference bytes. In the default build the checksum fields are zero by the stack's convention and are zeroed in the reference bytes (C18 judges them in the compute_checksum build). Non-trivial = distinct (codec, field-class tuple).",
    assumptions: &[
        "etherparse 0.10 and the harness's own packer (model/wire.rs) are the independent references; they are cross-checked against each other on every case",
        "values outside a format's field widths (MAC >= 2^48, fragment offset > 8191, IHL != 5, TCP data offset != 5, reserved TOS/flag bits) are not 'representable' and are only used as decoder inputs",
    ],
    may_exit_process: false,
    watchdog_s: 600,
    nt_floor: |t| t.pick(300, 2000),
};

pub fn cs() -> bool {
    cfg!(feature = "cs")
}

fn cls16(x: u16) -> u8 {
    match x {
        0 => 0,
        1 => 1,
        0xFFFF => 2,
        0xFFFE => 3,
        _ if x.count_ones() == 1 => 4,
        _ => 5,
    }
}
fn cls32(x: u32) -> u8 {
    match x {
        0 => 0,
        1 => 1,
        0xFFFF_FFFF => 2,
        0x8000_0000 => 3,
        0x7FFF_FFFF => 4,
        _ => 5,
    }
}

// ------------------------------------------------------------------ IPv4

pub struct Ip4Case {
    pub v: Ip4,
    pub class: String,
}

pub fn gen_ip4(rng: &mut impl Rng) -> Ip4Case {
    let v = Ip4 {
        tos: rng.u8_biased() & 0xfc,
        total_length: match rng.gen_range(0..6) {
            0 => 20,
            1 => 21,
            2 => 65535,
            _ => rng.gen_range(20..=65535),
        },
        id: rng.u16_biased(),
        df: rng.gen(),
        mf: rng.gen(),
        offset: match rng.gen_range(0..5) {
            0 => 0,
            1 => 8191,
            2 => 1,
            _ => rng.gen_range(0..=8191),
        },
        ttl: rng.u8_biased(),
        protocol: *rng.pick(&[0u8, 1, 6, 17, 253, 254, 255, 99]),
        src: rng.u32_biased().to_be_bytes(),
        dst: rng.u32_biased().to_be_bytes(),
    };
    let class = format!(
        "ip|tos{}|len{}|id{}|df{}mf{}|off{}|ttl{}|p{}",
        (v.tos != 0) as u8,
        cls16(v.total_length),
        cls16(v.id),
        v.df as u8,
        v.mf as u8,
        cls16(v.offset),
        cls16(v.ttl as u16),
        v.protocol
    );
    Ip4Case { v, class }
}

pub fn elvis_ip4(v: &Ip4) -> Ipv4Header {
    Ipv4Header {
        ihl: 5,
        type_of_service: v.tos.into(),
        total_length: v.total_length,
        identification: v.id,
        fragment_offset: v.offset,
        flags: ((v.mf as u8) | ((v.df as u8) << 1)).into(),
        time_to_live: v.ttl,
        protocol: v.protocol,
        checksum: 0,
        source: Ipv4Address::new(v.src),
        destination: Ipv4Address::new(v.dst),
    }
}

pub fn etherparse_ip4(v: &Ip4) -> Vec<u8> {
    let mut h = etherparse::Ipv4Header::new(v.total_length - 20, v.ttl, etherparse::IpNumber::Udp, v.src, v.dst);
    h.protocol = v.protocol;
    h.differentiated_services_code_point = v.tos >> 2;
    h.explicit_congestion_notification = v.tos & 3;
    h.identification = v.id;
    h.dont_fragment = v.df;
    h.more_fragments = v.mf;
    h.fragments_offset = v.offset;
    let mut out = vec![];
    h.write(&mut out).expect("etherparse ipv4 write");
    out
}

fn same_ip4(h: &Ipv4Header, v: &Ip4) -> Option<String> {
    let f = u8::from(h.flags);
    if h.ihl != 5 {
        return Some(format!("ihl {}", h.ihl));
    }
    if u8::from(h.type_of_service) != v.tos {
        return Some(format!("tos {:#x} want {:#x}", u8::from(h.type_of_service), v.tos));
    }
    if h.total_length != v.total_length {
        return Some(format!("total_length {} want {}", h.total_length, v.total_length));
    }
    if h.identification != v.id {
        return Some(format!("identification {} want {}", h.identification, v.id));
    }
    if h.fragment_offset != v.offset {
        return Some(format!("fragment_offset {} want {}", h.fragment_offset, v.offset));
    }
    if (f & 1 != 0) != v.mf || (f & 2 != 0) != v.df || h.flags.may_fragment() == v.df || h.flags.is_last_fragment() == v.mf {
        return Some(format!("flags {f:#b} want DF={} MF={}", v.df, v.mf));
    }
    if h.time_to_live != v.ttl || h.protocol != v.protocol {
        return Some("ttl/protocol".into());
    }
    if h.source.to_bytes() != v.src || h.destination.to_bytes() != v.dst {
        return Some("addresses".into());
    }
    None
}

fn ipv4_case(d: &mut Delta, rng: &mut impl Rng) {
    d.evaluations += 1;
    let c = gen_ip4(rng);
    d.nontrivial(fnv_str(&c.class));
    let v = c.v;
    let r = catch(|| {
        let mut errs: Vec<(String, String)> = vec![];
        let enc = match elvis_ip4(&v).serialize() {
            Ok(b) => b,
            Err(e) => return vec![("ipv4:encode-failed".into(), format!("serialize failed: {e}"))],
        };
        let reference = etherparse_ip4(&v);
        let mine = wire::pack_ipv4(&v, cs());
        let mut ref_cmp = reference.clone();
        if !cs() {
            ref_cmp[10] = 0;
            ref_cmp[11] = 0;
        }
        if wire::pack_ipv4(&v, true) != reference {
            errs.push(("reference-disagreement".into(), format!("etherparse {} vs hand packer {}", hex(&reference), hex(&wire::pack_ipv4(&v, true)))));
        }
        if enc != ref_cmp || enc != mine {
            errs.push(("ipv4:encoding-differs-from-reference".into(), format!("elvis {} reference {}", hex(&enc), hex(&ref_cmp))));
        }
        match Ipv4Header::from_bytes(enc.iter().cloned()) {
            Ok(h) => {
                if let Some(e) = same_ip4(&h, &v) {
                    errs.push(("ipv4:roundtrip-field".into(), format!("decode(encode(v)) differs: {e}")));
                }
                if h.checksum.to_be_bytes() != [enc[10], enc[11]] {
                    errs.push(("ipv4:checksum-field".into(), "decoded checksum differs from the wire".into()));
                }
            }
            Err(e) => errs.push(("ipv4:own-encoding-rejected".into(), format!("decoder rejects the encoder's output: {e}"))),
        }
        match Ipv4Header::from_bytes(ref_cmp.iter().cloned()) {
            Ok(h) => {
                if let Some(e) = same_ip4(&h, &v) {
                    errs.push(("ipv4:reference-decode-field".into(), format!("fields extracted from the reference packet differ: {e}")));
                }
            }
            Err(e) => errs.push(("ipv4:reference-rejected".into(), format!("decoder rejects the reference packet: {e}"))),
        }
        errs
    });
    report(d, r, "ipv4", json!({"value": format!("{v:?}")}));
}

fn ipv4_bytes_case(d: &mut Delta, rng: &mut impl Rng) {
    d.evaluations += 1;
    let c = gen_ip4(rng);
    let mut b = wire::pack_ipv4(&c.v, false);
    // mutate
    match rng.gen_range(0..6) {
        0 => {
            let i = rng.gen_range(0..20);
            b[i] ^= 1 << rng.gen_range(0..8);
        }
        1 => {
            let l: u16 = rng.gen_range(0..20);
            b[2..4].copy_from_slice(&l.to_be_bytes());
        }
        2 => b[0] = rng.gen(),
        3 => b[1] = rng.gen(),
        4 => b[6] = rng.gen(),
        _ => {}
    }
    if cs() {
        b[10] = 0;
        b[11] = 0;
        let ck = wire::rfc1071(&[&b]);
        b[10..12].copy_from_slice(&ck.to_be_bytes());
    }
    // trailing payload bytes must not matter
    let mut input = b.clone();
    let extra = rng.gen_range(0..4);
    input.extend_from_slice(&rng.bytes(extra));
    let inp = input.clone();
    let r = catch(move || {
        let mut errs: Vec<(String, String)> = vec![];
        if let Ok(h) = Ipv4Header::from_bytes(inp.iter().cloned()) {
            match catch(|| h.serialize()) {
                Ok(Ok(re)) => {
                    if re != inp[..20] {
                        errs.push(("ipv4:reencode-differs".into(), format!("accepted {} re-encoded as {}", hex(&inp[..20]), hex(&re))));
                    }
                }
                Ok(Err(e)) => {
                    let cls = if h.total_length < 20 { "total_length<20" } else { "other" };
                    errs.push((format!("ipv4:reencode-fails:{cls}"), format!("accepted header {} (total_length {}) cannot be re-encoded: {e}", hex(&inp[..20]), h.total_length)));
                }
                Err(p) => {
                    let (msg, loc) = split_panic(&p);
                    let cls = if h.total_length < 20 { "total_length<20" } else { "other" };
                    errs.push((format!("ipv4:reencode-panics:{cls}:{loc}"), format!("accepted header {} (total_length {}) panics on re-encoding: {msg}", hex(&inp[..20]), h.total_length)));
                }
            }
        }
        errs
    });
    d.nontrivial(fnv_str(&format!("ipb|{}|{}", b[0], cls16(u16::from_be_bytes([b[2], b[3]])))));
    report(d, r, "ipv4-bytes", json!({"bytes": hex(&input)}));
}

// ------------------------------------------------------------------ UDP

pub struct UdpCase {
    pub src: [u8; 4],
    pub dst: [u8; 4],
    pub sp: u16,
    pub dp: u16,
    pub payload: Vec<u8>,
}

pub fn gen_udp(rng: &mut impl Rng) -> UdpCase {
    let n = match rng.gen_range(0..8) {
        0 => 0,
        1 => 1,
        2 => 2,
        3 => 65507,
        4 => rng.gen_range(0..=65507),
        _ => rng.gen_range(0..=300),
    };
    let n = crate::cap(n);
    UdpCase {
        src: rng.u32_biased().to_be_bytes(),
        dst: rng.u32_biased().to_be_bytes(),
        sp: rng.u16_biased(),
        dp: rng.u16_biased(),
        payload: rng.bytes(n),
    }
}

pub fn etherparse_udp(c: &UdpCase) -> Vec<u8> {
    let ip = etherparse::Ipv4Header::new((8 + c.payload.len()) as u16, 64, etherparse::IpNumber::Udp, c.src, c.dst);
    let h = etherparse::UdpHeader::with_ipv4_checksum(c.sp, c.dp, &ip, &c.payload).expect("etherparse udp");
    let mut out = vec![];
    h.write(&mut out).unwrap();
    out
}

fn udp_case(d: &mut Delta, rng: &mut impl Rng) {
    d.evaluations += 1;
    let c = gen_udp(rng);
    d.nontrivial(fnv_str(&format!("udp|{}|{}|{}|{}", cls16(c.sp), cls16(c.dp), cls16(c.payload.len() as u16), c.payload.len() % 2)));
    let witness = json!({"src": c.src, "dst": c.dst, "sp": c.sp, "dp": c.dp, "payload_len": c.payload.len()});
    let r = catch(|| {
        let mut errs: Vec<(String, String)> = vec![];
        let enc = match build_udp_header(Ipv4Address::new(c.src), c.sp, Ipv4Address::new(c.dst), c.dp, c.payload.iter().cloned(), c.payload.len()) {
            Ok(b) => b,
            Err(e) => return vec![("udp:encode-failed".into(), format!("{e}"))],
        };
        let reference = etherparse_udp(&c);
        if wire::pack_udp(c.src, c.sp, c.dst, c.dp, &c.payload, true) != reference {
            errs.push(("reference-disagreement".into(), "etherparse and hand packer disagree on a UDP header".into()));
        }
        let mut ref_cmp = reference.clone();
        if !cs() {
            ref_cmp[6] = 0;
            ref_cmp[7] = 0;
        }
        if enc != ref_cmp {
            errs.push(("udp:encoding-differs-from-reference".into(), format!("elvis {} reference {}", hex(&enc), hex(&ref_cmp))));
        }
        for (name, hdr) in [("own", &enc), ("reference", &ref_cmp)] {
            let mut pkt = hdr.clone();
            pkt.extend_from_slice(&c.payload);
            match UdpHeader::from_bytes_ipv4(pkt.iter().cloned(), pkt.len(), Ipv4Address::new(c.src), Ipv4Address::new(c.dst)) {
                Ok(h) => {
                    if h.source != c.sp || h.destination != c.dp || h.length as usize != pkt.len() || h.checksum.to_be_bytes() != [hdr[6], hdr[7]] {
                        errs.push((format!("udp:{name}-decode-field"), format!("decoded {h:?}")));
                    }
                    // (b) re-encode what was accepted
                    if let Ok(re) = build_udp_header(Ipv4Address::new(c.src), h.source, Ipv4Address::new(c.dst), h.destination, c.payload.iter().cloned(), c.payload.len()) {
                        if re != pkt[..8] {
                            errs.push(("udp:reencode-differs".into(), format!("accepted {} re-encoded {}", hex(&pkt[..8]), hex(&re))));
                        }
                    }
                }
                Err(e) => errs.push((format!("udp:{name}-encoding-rejected"), format!("{e}"))),
            }
        }
        // a length field that disagrees with the packet must be refused
        let mut bad = enc.clone();
        let l = u16::from_be_bytes([bad[4], bad[5]]).wrapping_add(1);
        bad[4..6].copy_from_slice(&l.to_be_bytes());
        bad.extend_from_slice(&c.payload);
        if UdpHeader::from_bytes_ipv4(bad.iter().cloned(), bad.len(), Ipv4Address::new(c.src), Ipv4Address::new(c.dst)).is_ok() {
            errs.push(("udp:length-mismatch-accepted".into(), "a UDP length field that disagrees with the datagram was accepted".into()));
        }
        errs
    });
    report(d, r, "udp", witness);
}

// ------------------------------------------------------------------ TCP

pub struct TcpCase {
    pub src: [u8; 4],
    pub dst: [u8; 4],
    pub t: Tcp,
    pub payload: Vec<u8>,
}

pub fn gen_tcp(rng: &mut impl Rng, k: u64) -> TcpCase {
    let n = match rng.gen_range(0..8) {
        0 => 0,
        1 => 1,
        2 => 65515,
        3 => rng.gen_range(0..=65515),
        _ => rng.gen_range(0..=200),
    };
    let n = crate::cap(n);
    TcpCase {
        src: rng.u32_biased().to_be_bytes(),
        dst: rng.u32_biased().to_be_bytes(),
        t: Tcp {
            sp: rng.u16_biased(),
            dp: rng.u16_biased(),
            seq: rng.u32_biased(),
            ack: rng.u32_biased(),
            flags: (k % 64) as u8 ^ if rng.chance(1, 2) { rng.gen_range(0..64) } else { 0 },
            wnd: rng.u16_biased(),
            urg: rng.u16_biased(),
        },
        payload: rng.bytes(n),
    }
}

pub fn etherparse_tcp(c: &TcpCase) -> Vec<u8> {
    let t = &c.t;
    let mut h = etherparse::TcpHeader::new(t.sp, t.dp, t.seq, t.wnd);
    h.acknowledgment_number = t.ack;
    h.fin = t.flags & 1 != 0;
    h.syn = t.flags & 2 != 0;
    h.rst = t.flags & 4 != 0;
    h.psh = t.flags & 8 != 0;
    h.ack = t.flags & 16 != 0;
    h.urg = t.flags & 32 != 0;
    h.urgent_pointer = t.urg;
    h.checksum = h.calc_checksum_ipv4_raw(c.src, c.dst, &c.payload).expect("etherparse tcp checksum");
    let mut out = vec![];
    h.write(&mut out).unwrap();
    out
}

pub fn elvis_tcp_header(c: &TcpCase) -> TcpHeader {
    TcpHeader {
        src_port: c.t.sp,
        dst_port: c.t.dp,
        seq: c.t.seq,
        ack: c.t.ack,
        data_offset: 5,
        ctl: TcpControl::from(c.t.flags),
        wnd: c.t.wnd,
        urg: c.t.urg,
        checksum: 0,
    }
}

fn tcp_case(d: &mut Delta, rng: &mut impl Rng, k: u64) {
    d.evaluations += 1;
    let c = gen_tcp(rng, k);
    d.nontrivial(fnv_str(&format!("tcp|{}|{}|{}|{}|{}|{}", c.t.flags, cls32(c.t.seq), cls32(c.t.ack), cls16(c.t.wnd), cls16(c.t.urg), cls16(c.payload.len() as u16))));
    let witness = json!({"tcp": format!("{:?}", c.t), "src": c.src, "dst": c.dst, "payload_len": c.payload.len()});
    let r = catch(|| {
        let mut errs: Vec<(String, String)> = vec![];
        let reference = etherparse_tcp(&c);
        if wire::pack_tcp(c.src, c.dst, &c.t, &c.payload, true) != reference {
            errs.push(("reference-disagreement".into(), "etherparse and hand packer disagree on a TCP header".into()));
        }
        let mut ref_cmp = reference.clone();
        if !cs() {
            ref_cmp[16] = 0;
            ref_cmp[17] = 0;
        }
        // encoding 1: the struct's serialize (checksum as given: take the reference's)
        let mut hdr = elvis_tcp_header(&c);
        hdr.checksum = u16::from_be_bytes([ref_cmp[16], ref_cmp[17]]);
        let enc = hdr.serialize();
        if enc != ref_cmp {
            errs.push(("tcp:encoding-differs-from-reference".into(), format!("serialize {} reference {}", hex(&enc), hex(&ref_cmp))));
        }
        // control-bit accessors
        let ctl = hdr.ctl;
        let f = c.t.flags;
        if ctl.fin() != (f & 1 != 0) || ctl.syn() != (f & 2 != 0) || ctl.rst() != (f & 4 != 0) || ctl.psh() != (f & 8 != 0) || ctl.ack() != (f & 16 != 0) || ctl.urg() != (f & 32 != 0) {
            errs.push(("tcp:control-accessors".into(), format!("Control accessors disagree with bits {f:#08b}")));
        }
        // encoding 2: the builder (can only express URG together with an urgent pointer, ACK together with an ack number)
        if (f & 32 != 0 || c.t.urg == 0) && (f & 16 != 0 || c.t.ack == 0) {
            use elvis_core::protocols::tcp::verif::TcpHeaderBuilder;
            let mut b = TcpHeaderBuilder::new(c.t.sp, c.t.dp, c.t.seq).wnd(c.t.wnd);
            if f & 16 != 0 {
                b = b.ack(c.t.ack);
            }
            if f & 8 != 0 {
                b = b.psh();
            }
            if f & 4 != 0 {
                b = b.rst();
            }
            if f & 2 != 0 {
                b = b.syn();
            }
            if f & 1 != 0 {
                b = b.fin();
            }
            if f & 32 != 0 {
                b = b.urg(c.t.urg);
            }
            match b.build(Ipv4Address::new(c.src), Ipv4Address::new(c.dst), c.payload.iter().cloned(), c.payload.len()) {
                Ok(h) => {
                    let enc2 = h.serialize();
                    if enc2 != ref_cmp {
                        errs.push(("tcp:builder-encoding-differs-from-reference".into(), format!("builder {} reference {}", hex(&enc2), hex(&ref_cmp))));
                    }
                }
                Err(e) => errs.push(("tcp:builder-failed".into(), format!("{e}"))),
            }
        }
        for (name, h20) in [("own", &enc), ("reference", &ref_cmp)] {
            let mut pkt = h20.clone();
            pkt.extend_from_slice(&c.payload);
            match TcpHeader::from_bytes(pkt.iter().cloned(), pkt.len(), Ipv4Address::new(c.src), Ipv4Address::new(c.dst)) {
                Ok(h) => {
                    if h.src_port != c.t.sp || h.dst_port != c.t.dp || h.seq != c.t.seq || h.ack != c.t.ack || u8::from(h.ctl) != c.t.flags & 0x3f || h.wnd != c.t.wnd || h.urg != c.t.urg || h.data_offset != 5 {
                        errs.push((format!("tcp:{name}-decode-field"), format!("decoded {h:?}")));
                    }
                    let re = h.serialize();
                    if re != pkt[..20] {
                        errs.push(("tcp:reencode-differs".into(), format!("accepted {} re-encoded {}", hex(&pkt[..20]), hex(&re))));
                    }
                }
                Err(e) => errs.push((format!("tcp:{name}-encoding-rejected"), format!("{e}"))),
            }
        }
        errs
    });
    report(d, r, "tcp", witness);
}

fn tcp_bytes_case(d: &mut Delta, rng: &mut impl Rng, k: u64) {
    // decoder-accepted byte strings with reserved bits / ECN bits set
    d.evaluations += 1;
    let c = gen_tcp(rng, k);
    let mut pkt = wire::pack_tcp(c.src, c.dst, &c.t, &c.payload, false);
    let kind = rng.gen_range(0..4);
    match kind {
        0 => pkt[12] |= rng.gen_range(1..16),      // reserved nibble
        1 => pkt[13] |= rng.gen_range(1..4) << 6,   // CWR / ECE
        2 => pkt[12] = rng.gen(),                   // data offset
        _ => {
            let i = rng.gen_range(0..20);
            pkt[i] ^= 1 << rng.gen_range(0..8);
        }
    }
    pkt.extend_from_slice(&c.payload);
    if cs() {
        pkt[16] = 0;
        pkt[17] = 0;
        let ck = wire::rfc1071(&[&wire::pseudo(c.src, c.dst, 6, pkt.len() as u16), &pkt]);
        pkt[16..18].copy_from_slice(&ck.to_be_bytes());
    }
    d.nontrivial(fnv_str(&format!("tcpb|{kind}|{}|{}", pkt[12], pkt[13] >> 6)));
    let p2 = pkt.clone();
    let r = catch(move || {
        let mut errs: Vec<(String, String)> = vec![];
        if let Ok(h) = TcpHeader::from_bytes(p2.iter().cloned(), p2.len(), Ipv4Address::new(c.src), Ipv4Address::new(c.dst)) {
            let re = h.serialize();
            if re != p2[..20] {
                let cls = if p2[12] & 0x0f != 0 {
                    "reserved-bits-dropped"
                } else if p2[13] & 0xc0 != 0 {
                    "cwr-ece-bits-dropped"
                } else {
                    "other"
                };
                errs.push((format!("tcp:reencode-differs:{cls}"), format!("decoder accepted {} but re-encoding gives {}", hex(&p2[..20]), hex(&re))));
            }
        }
        errs
    });
    report(d, r, "tcp-bytes", json!({"bytes": hex(&pkt[..20.min(pkt.len())])}));
}

// ------------------------------------------------------------------ ARP

fn arp_case(d: &mut Delta, rng: &mut impl Rng) {
    d.evaluations += 1;
    let mac = |rng: &mut dyn rand::RngCore| -> u64 {
        match rng.gen_range(0..6) {
            0 => 0,
            1 => 0xFFFF_FFFF_FFFF,
            2 => 1u64 << rng.gen_range(0..48),
            3 => 0x8000_0000_0000,
            _ => rng.gen::<u64>() & 0xFFFF_FFFF_FFFF,
        }
    };
    let p = ArpPacket {
        htype: rng.u16_biased(),
        ptype: rng.u16_biased(),
        hlen: rng.u8_biased(),
        plen: rng.u8_biased(),
        oper: if rng.gen() { Operation::Request } else { Operation::Reply },
        sender_mac: mac(rng),
        sender_ip: Ipv4Address::from(rng.u32_biased()),
        target_mac: mac(rng),
        target_ip: Ipv4Address::from(rng.u32_biased()),
    };
    d.nontrivial(fnv_str(&format!("arp|{:?}|{}|{}|{}", p.oper, cls16(p.htype), (p.sender_mac >> 40) as u8 != 0, (p.target_mac >> 40) as u8 != 0)));
    let r = catch(|| {
        let mut errs: Vec<(String, String)> = vec![];
        let enc = p.build();
        // independent layout
        let mut want = vec![];
        want.extend_from_slice(&p.htype.to_be_bytes());
        want.extend_from_slice(&p.ptype.to_be_bytes());
        want.push(p.hlen);
        want.push(p.plen);
        want.extend_from_slice(&(if p.oper == Operation::Request { 1u16 } else { 2 }).to_be_bytes());
        want.extend_from_slice(&p.sender_mac.to_be_bytes()[2..]);
        want.extend_from_slice(&p.sender_ip.to_bytes());
        want.extend_from_slice(&p.target_mac.to_be_bytes()[2..]);
        want.extend_from_slice(&p.target_ip.to_bytes());
        if enc != want {
            errs.push(("arp:layout".into(), format!("encoded {} expected {}", hex(&enc), hex(&want))));
        }
        match ArpPacket::from_bytes(enc.iter().cloned()) {
            Ok(q) => {
                if q != p {
                    errs.push(("arp:roundtrip".into(), format!("{q:?} != {p:?}")));
                }
            }
            Err(e) => errs.push(("arp:own-encoding-rejected".into(), format!("{e}"))),
        }
        // (b) mutated
        let mut m = want.clone();
        let i = rng.gen_range(0..28);
        m[i] = rng.gen();
        if let Ok(q) = ArpPacket::from_bytes(m.iter().cloned()) {
            let re = q.build();
            if re != m {
                errs.push(("arp:reencode-differs".into(), format!("accepted {} re-encoded {}", hex(&m), hex(&re))));
            }
        }
        // truncations are errors
        let cut = rng.gen_range(0..28);
        if ArpPacket::from_bytes(want[..cut].iter().cloned()).is_ok() {
            errs.push(("arp:truncated-accepted".into(), format!("{cut}-byte prefix accepted")));
        }
        errs
    });
    report(d, r, "arp", json!({"packet": format!("{p:?}")}));
}

// ------------------------------------------------------------------ DNS

fn dns_name(rng: &mut impl Rng) -> Vec<u8> {
    let n = *rng.pick(&[0usize, 1, 3, 10, 24, 25, 60, 255]);
    (0..n)
        .map(|_| loop {
            let b: u8 = if rng.chance(4, 5) { rng.gen_range(0x21..0x7f) } else { rng.gen() };
            if b != b' ' {
                break b;
            }
        })
        .collect()
}

fn dns_case(d: &mut Delta, rng: &mut impl Rng) {
    d.evaluations += 1;
    let id = rng.u16_biased();
    let resp: bool = rng.gen();
    let qn = dns_name(rng);
    let an = if rng.chance(1, 2) { qn.clone() } else { dns_name(rng) };
    let ttl = rng.u32_biased();
    let ip = Ipv4Address::from(rng.u32_biased());
    d.nontrivial(fnv_str(&format!("dns|{}|{}|{}|{}|{}", resp, cls16(id), qn.len(), an.len(), cls32(ttl))));
    let witness = json!({"id": id, "response": resp, "qname": hex(&qn), "aname": hex(&an), "ttl": ttl});
    let r = catch(|| {
        let mut errs: Vec<(String, String)> = vec![];
        let mk = || {
            let mut h = DnsHeader::new(id, if resp { DnsMessageType::RESPONSE } else { DnsMessageType::QUERY });
            h.qdcount = 1;
            h.ancount = 2;
            h.nscount = 0xFFFF;
            h.arcount = 0x8000;
            DnsMessage::new(h, DnsQuestion::new(qn.clone()), DnsResourceRecord::new(an.clone(), ttl, ip)).unwrap()
        };
        let enc = mk().to_message().unwrap().to_vec();
        let mut want = vec![];
        want.extend_from_slice(&id.to_be_bytes());
        want.extend_from_slice(&(if resp { 0x8000u16 } else { 0 }).to_be_bytes());
        want.extend_from_slice(&[0, 1, 0, 2, 0xFF, 0xFF, 0x80, 0]);
        want.extend_from_slice(&qn);
        want.push(b' ');
        want.extend_from_slice(&[0, 1, 0, 1]);
        want.extend_from_slice(&an);
        want.push(b' ');
        want.extend_from_slice(&[0, 1, 0, 1]);
        want.extend_from_slice(&ttl.to_be_bytes());
        want.extend_from_slice(&[0, 4]);
        want.extend_from_slice(&ip.to_bytes());
        if enc != want {
            errs.push(("dns:layout".into(), format!("encoded {} expected {}", hex(&enc), hex(&want))));
        }
        match DnsMessage::from_bytes(enc.iter().cloned()) {
            Ok(m) => {
                if m.header.id != id || m.header.properties != if resp { 0x8000 } else { 0 } || m.header.qdcount != 1 || m.header.ancount != 2 || m.header.nscount != 0xFFFF || m.header.arcount != 0x8000 {
                    errs.push(("dns:roundtrip-header".into(), "header fields differ after a round trip".into()));
                }
                if m.question.qname != qn || m.answer.name != an || m.answer.ttl != ttl || m.answer.rdata != ip.to_bytes() || m.answer.rec_type != 1 {
                    errs.push(("dns:roundtrip-body".into(), "question/answer fields differ after a round trip".into()));
                }
                let re = m.to_message().unwrap().to_vec();
                if re != enc {
                    errs.push(("dns:reencode-differs".into(), format!("re-encoded {} original {}", hex(&re), hex(&enc))));
                }
            }
            Err(e) => errs.push(("dns:own-encoding-rejected".into(), format!("{e}"))),
        }
        // (b) mutate: change rdlength / append trailing garbage; accepted strings must re-encode to the consumed prefix
        let mut m = want.clone();
        let rdl_pos = m.len() - 6;
        let new_len: u16 = *rng.pick(&[0u16, 1, 3, 4]);
        m[rdl_pos..rdl_pos + 2].copy_from_slice(&new_len.to_be_bytes());
        m.extend_from_slice(&rng.bytes(3));
        if let Ok(x) = DnsMessage::from_bytes(m.iter().cloned()) {
            let consumed = rdl_pos + 2 + new_len as usize;
            let re = x.to_message().unwrap().to_vec();
            if re != m[..consumed] {
                errs.push(("dns:reencode-differs".into(), format!("accepted {} re-encoded {}", hex(&m[..consumed]), hex(&re))));
            }
        }
        // every truncation is an error (never Ok, never a panic)
        let cut = rng.gen_range(0..want.len());
        if DnsMessage::from_bytes(want[..cut].iter().cloned()).is_ok() {
            errs.push(("dns:truncated-accepted".into(), format!("{cut}-byte prefix of a {}-byte message accepted", want.len())));
        }
        errs
    });
    report(d, r, "dns", witness);
}

// ------------------------------------------------------------------ DHCP

fn dhcp_case(d: &mut Delta, rng: &mut impl Rng) {
    d.evaluations += 1;
    let ty = rng.gen_range(1..=7u8);
    let op = rng.u8_biased();
    let yip = Ipv4Address::from(rng.u32_biased());
    d.nontrivial(fnv_str(&format!("dhcp|{ty}|{}|{}", cls16(op as u16), cls32(yip.to_u32()))));
    let r = catch(|| {
        let mut errs: Vec<(String, String)> = vec![];
        let mk = || {
            let mut m = DhcpMessage::default();
            m.op = op;
            m.your_ip = yip;
            m.msg_type = MessageType::try_from(ty).unwrap();
            m
        };
        let enc = DhcpMessage::to_message(mk()).unwrap().to_vec();
        match DhcpMessage::from_bytes(enc.iter().cloned()) {
            Ok(m) => {
                if m != mk() {
                    errs.push(("dhcp:roundtrip".into(), format!("{m:?} != {:?}", mk())));
                }
            }
            Err(e) => errs.push(("dhcp:own-encoding-rejected".into(), format!("{e}"))),
        }
        // (b) all the private fields are reachable through bytes: build a byte string by hand
        let mut b = vec![rng.gen(), rng.gen(), rng.gen(), rng.gen()];
        b.extend_from_slice(&rng.bytes(4)); // xid
        b.extend_from_slice(&rng.bytes(2)); // secs
        b.push(rng.gen()); // flags
        b.extend_from_slice(&rng.bytes(16)); // 4 addresses
        b.extend_from_slice(&rng.bytes(2)); // chaddr
        b.push(ty);
        let n1 = *rng.pick(&[0usize, 1, 5, 64]);
        let n2 = *rng.pick(&[0usize, 1, 8, 128]);
        // strings without the terminator: any Unicode text, not only ASCII (1..4-byte UTF-8 sequences)
        let mut text = |n: usize| -> Vec<u8> {
            let ascii_only = rng.gen::<bool>();
            (0..n)
                .map(|_| {
                    if ascii_only || rng.gen_range(0..3) > 0 {
                        rng.gen_range(1u8..0x7f) as char
                    } else {
                        *[
                            '\u{80}', '\u{e9}', '\u{fc}', '\u{ff}', '\u{100}', '\u{7ff}', '\u{800}', '\u{20ac}', '\u{4e2d}', '\u{ffff}', '\u{10000}', '\u{1f600}', '\u{10ffff}',
                        ]
                        .get(rng.gen_range(0..13))
                        .unwrap()
                    }
                })
                .collect::<String>()
                .into_bytes()
        };
        let s1: Vec<u8> = text(n1);
        let s2: Vec<u8> = text(n2);
        b.extend_from_slice(&s1);
        b.push(0);
        b.extend_from_slice(&s2);
        b.push(0);
        let consumed = b.len();
        b.extend_from_slice(&rng.bytes(2));
        match DhcpMessage::from_bytes(b.iter().cloned()) {
            Ok(m) => {
                let re = DhcpMessage::to_message(m).unwrap().to_vec();
                if re != b[..consumed] {
                    errs.push(("dhcp:reencode-differs".into(), format!("accepted {} re-encoded {}", hex(&b[..consumed]), hex(&re))));
                }
            }
            Err(e) => errs.push(("dhcp:valid-bytes-rejected".into(), format!("{e}"))),
        }
        let cut = rng.gen_range(0..consumed);
        if DhcpMessage::from_bytes(b[..cut].iter().cloned()).is_ok() {
            errs.push(("dhcp:truncated-accepted".into(), format!("{cut}-byte prefix accepted")));
        }
        errs
    });
    report(d, r, "dhcp", json!({"type": ty, "op": op, "your_ip": format!("{yip}")}));
}

// ------------------------------------------------------------------ BytesExt

fn bytes_ext_case(d: &mut Delta, rng: &mut impl Rng) {
    d.evaluations += 1;
    let n = rng.gen_range(0..20);
    let b = rng.bytes(n);
    d.nontrivial(fnv_str(&format!("bx|{n}")));
    let bb = b.clone();
    let r = catch(move || {
        let mut errs: Vec<(String, String)> = vec![];
        let mut it = bb.iter().cloned();
        let mut pos = 0usize;
        loop {
            let k = pos % 5;
            let need = [1usize, 2, 4, 6, 8][k];
            let avail = bb.len() - pos.min(bb.len());
            let got: Option<u64> = match k {
                0 => it.next_u8().map(|x| x as u64),
                1 => it.next_u16_be().map(|x| x as u64),
                2 => it.next_u32_be().map(|x| x as u64),
                3 => it.next_u48_be(),
                _ => it.next_u64_be(),
            };
            if avail < need {
                if got.is_some() {
                    errs.push(("bytesext:read-past-end".into(), format!("read of {need} bytes with {avail} left returned a value")));
                }
                break;
            }
            let mut want = 0u64;
            for x in &bb[pos..pos + need] {
                want = (want << 8) | *x as u64;
            }
            if got != Some(want) {
                errs.push(("bytesext:value".into(), format!("{need}-byte big-endian read gave {got:?} want {want}")));
                break;
            }
            pos += need;
        }
        errs
    });
    report(d, r, "bytesext", json!({"bytes": hex(&b)}));
}

pub fn report(d: &mut Delta, r: Result<Vec<(String, String)>, String>, codec: &str, witness: serde_json::Value) {
    match r {
        Ok(errs) => {
            for (sig, what) in errs {
                d.violation(sig, what, witness.clone());
            }
        }
        Err(e) => {
            let (msg, loc) = split_panic(&e);
            d.violation(format!("panic:{codec}:{loc}"), format!("{codec} codec panicked: {msg}"), witness);
        }
    }
}

fn run(env: &Env, k: u64, d: &mut Delta) {
    let mut rng = scenario_rng("C08", env.seed, k);
    let n = env.tier.pick3(450, 900, 2);
    for i in 0..n {
        ipv4_case(d, &mut rng);
        ipv4_bytes_case(d, &mut rng);
        udp_case(d, &mut rng);
        tcp_case(d, &mut rng, k * 1000 + i);
        tcp_bytes_case(d, &mut rng, k * 1000 + i);
        arp_case(d, &mut rng);
        dns_case(d, &mut rng);
        dhcp_case(d, &mut rng);
        bytes_ext_case(d, &mut rng);
    }
    if k < 2 {
        let c = gen_ip4(&mut rng);
        d.sample(json!({"codec": "ipv4", "value": format!("{:?}", c.v), "encoded": hex(&wire::pack_ipv4(&c.v, cs()))}));
        let t = gen_tcp(&mut rng, k);
        d.sample(json!({"codec": "tcp", "value": format!("{:?}", t.t), "payload_len": t.payload.len()}));
    }
}
