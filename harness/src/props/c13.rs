//! C13 — a simulation starts behind a barrier and ends with the requested status.

use crate::net::*;
use crate::{scenario_rng, Delta, Env, PropDef, RngExt};
use elvis::applications::{ArpRouter, Capture, DhcpServer, Forward, PingPong, SendMessage};
use elvis::ip_generator::IpRange;
use elvis_core::{
    network::{Latency, NetworkBuilder},
    protocols::{
        dhcp::dhcp_client::DhcpClient,
        ipv4::{Ipv4, Ipv4Address, Recipient},
        Arp, Endpoint, Endpoints, Pci, SocketAPI, Tcp, Udp,
    },
    run_internet_with_timeout, ExitStatus, IpTable, Machine, Message,
};
use rand::Rng;
use serde_json::{json, Value};
use std::{
    sync::{Arc, Mutex},
    time::Duration,
};

pub static DEF: PropDef = PropDef {
    id: "C13",
    level: "exploration",
    total: |t| t.pick(128, 6400),
    run,
    rule: "0..12 machines (plus, in a quarter of the runs, 1..2 machines without any protocol) mixing Pci/Ipv4/Udp/Tcp/Arp/SocketAPI with the built-in applications (SendMessage, Capture, Forward, PingPong, DhcpClient/DhcpServer, ArpRouter) and harness applications that initialise slowly (10..500 ms of simulated time before arriving at the barrier), request shutdown early/late/concurrently with distinct statuses (in a quarter of the runs as a burst: all requesters at one instant, 1..3 requests each), or never finish; timeouts 0 ms..5 s; paused current_thread runtime (exact times) and multi_thread runtime (order stamps only). A process-wide SeqCst counter stamps: each harness application's arrival at the barrier, every frame entering any network (H4), every delivery to a harness application, every shutdown request. Barrier oracle: no frame and no delivery may be stamped before the last harness arrival (the barrier cannot have released earlier). Status oracle: the returned status is that of a request no other request finished before; TimedOut iff no request was made before the timeout, and not before the timeout has elapsed; a run in which nothing can request the end (no machines, machines without protocols, idle machines) ends by its timeout only; simulated elapsed <= timeout + 1 s. Non-trivial = >=1 slow initialiser AND >=1 built-in sender in the same run; distinct by configuration hash.",
    assumptions: &[
        "requests issued at exactly the same simulated instant, or exactly at the timeout instant, may win in either order",
        "multi-thread runs: a wall-clock watchdog firing is inconclusive; time bounds are not judged there",
    ],
    may_exit_process: true,
    watchdog_s: 120,
    nt_floor: |t| t.pick(20, 300),
};

fn ip(x: u32) -> Ipv4Address {
    Ipv4Address::from(x)
}

#[derive(Clone, Debug)]
struct ShutReq {
    machine: usize,
    at_ms: u64,
    status: u32,
}

#[derive(Clone, Copy, Debug, PartialEq, Eq)]
enum Builtin {
    None,
    SenderToCapture,
    ForwardChain,
    PingPongPair,
    Dhcp,
    Router,
}

fn scenario(env: &Env, k: u64, case: u64, rng: &mut rand::rngs::SmallRng, d: &mut Delta, multi: Option<usize>) {
    d.evaluations += 1;
    let builtin = *rng.pick(&[Builtin::None, Builtin::SenderToCapture, Builtin::SenderToCapture, Builtin::ForwardChain, Builtin::PingPongPair, Builtin::Dhcp, Builtin::Router]);
    let with_arp = rng.chance(1, 2);
    let n_harness = rng.gen_range(0..=5usize);
    let slow: Vec<u64> = (0..n_harness).map(|_| if rng.chance(1, 2) { rng.gen_range(10..=500) } else { 0 }).collect();
    let never: Vec<bool> = (0..n_harness).map(|_| rng.chance(1, 6)).collect();
    let timeout_ms: u64 = *rng.pick(&[0u64, 1, 50, 300, 1000, 5000]);
    let n_empty = if rng.chance(1, 4) { rng.gen_range(1..=2usize) } else { 0 };
    let mut reqs: Vec<ShutReq> = vec![];
    // burst: every requesting application fires at one common instant, each possibly several times in a row,
    // so that many requests are pending before the run task polls once
    let burst: Option<u64> = if rng.chance(1, 4) { Some(*rng.pick(&[0u64, 1, timeout_ms.saturating_sub(1), timeout_ms / 2])) } else { None };
    for m in 0..n_harness {
        if let Some(at) = burst {
            if rng.chance(3, 4) {
                for j in 0..rng.gen_range(1..=3u32) {
                    reqs.push(ShutReq { machine: m, at_ms: at, status: 100 * (j + 1) + m as u32 });
                }
            }
            continue;
        }
        if rng.chance(1, 2) {
            let at = match rng.gen_range(0..6) {
                0 => 0,
                1 => timeout_ms,
                2 => timeout_ms + rng.gen_range(1..500),
                3 => timeout_ms.saturating_sub(1),
                _ => rng.gen_range(0..=timeout_ms.max(1) * 2),
            };
            reqs.push(ShutReq { machine: m, at_ms: at, status: 100 + m as u32 });
            if rng.chance(1, 4) {
                // a second, concurrent request from the same app with another status
                reqs.push(ShutReq { machine: m, at_ms: at, status: 200 + m as u32 });
            }
        }
    }
    // in multi-thread mode wall-clock is real: keep everything short
    let (timeout_ms, slow, reqs) = if multi.is_some() {
        (timeout_ms.min(300), slow.iter().map(|s| s.min(&40).to_owned()).collect::<Vec<_>>(), reqs.into_iter().map(|mut r| { r.at_ms = r.at_ms.min(400); r }).collect::<Vec<_>>())
    } else {
        (timeout_ms, slow, reqs)
    };
    // "all timeouts": one paused run in ten is given a timeout that means "no limit" - the largest Duration, the
    // largest number of seconds, 2^62 s, 2^32 s - through either entry point. Such a run must contain a request.
    let mut reqs = reqs;
    let huge: Option<(Duration, bool)> = if multi.is_none() && n_harness > 0 && rng.chance(1, 10) {
        if reqs.is_empty() {
            reqs.push(ShutReq { machine: 0, at_ms: 5, status: 100 });
        }
        Some((*rng.pick(&[Duration::MAX, Duration::from_secs(u64::MAX), Duration::from_secs(1 << 62), Duration::from_secs(1 << 32), Duration::from_millis(u64::MAX)]), rng.chance(1, 2)))
    } else {
        None
    };
    let desc = json!({
        "huge_timeout": huge.map(|(h, direct)| format!("{h:?} through {}", if direct { "run_internet" } else { "run_internet_with_timeout" })),
        "runtime": multi.map(|w| format!("multi_thread({w})")).unwrap_or("current_thread paused".into()),
        "builtin": format!("{builtin:?}"), "arp": with_arp, "harness_apps": n_harness, "machines_without_protocols": n_empty, "slow_init_ms": slow, "never_finishing": never,
        "timeout_ms": timeout_ms, "shutdown_requests": reqs.iter().map(|r| format!("{r:?}")).collect::<Vec<_>>(), "scenario": k, "case": case,
    });
    let arrivals: Arc<Mutex<Vec<(u64, u64)>>> = Arc::new(Mutex::new(vec![]));
    let req_stamps: Arc<Mutex<Vec<(u32, u64, u64, Duration)>>> = Arc::new(Mutex::new(vec![])); // (status, start stamp, end stamp, time)
    let log: Log = Arc::new(Mutex::new(vec![]));
    let fut = {
        let arrivals = arrivals.clone();
        let req_stamps = req_stamps.clone();
        let log = log.clone();
        let slow = slow.clone();
        let never = never.clone();
        let reqs = reqs.clone();
        async move {
            let mut b = NetworkBuilder::new();
            if !multi.is_some() {
                b = b.latency(Latency::constant(ms(1)));
            }
            let nets = [b.build(), b.build(), b.build()];
            let rec = Recorder::passive();
            for n in &nets {
                n.set_verif_hook(rec.clone());
            }
            let t0 = tokio::time::Instant::now();
            let table: IpTable<Recipient> = [("0.0.0.0/0", Recipient::new(0, None))].into_iter().collect();
            let base = |addr: u32, net: usize| {
                let mut m = Machine::new().with(Udp::new()).with(Ipv4::new(table.clone())).with(Pci::new([nets[net].clone()]));
                if with_arp {
                    m = m.with(Arp::new());
                }
                let _ = addr;
                m
            };
            let mut machines: Vec<Arc<Machine>> = vec![];
            let a1 = 0x0A00_0001u32;
            let a2 = 0x0A00_0002u32;
            let a3 = 0x0A00_0003u32;
            match builtin {
                Builtin::None => {}
                Builtin::SenderToCapture => {
                    machines.push(base(a1, 0).with(SendMessage::new(vec![Message::new("hello")], Endpoint::new(ip(a2), 9)).local_ip(ip(a1))).with(Capture::new(Endpoint::new(ip(a1), 10), 99)).arc());
                    machines.push(base(a2, 0).with(Capture::new(Endpoint::new(ip(a2), 9), 1000)).arc());
                }
                Builtin::ForwardChain => {
                    machines.push(base(a1, 0).with(SendMessage::new(vec![Message::new("fwd")], Endpoint::new(ip(a2), 9)).local_ip(ip(a1))).with(Capture::new(Endpoint::new(ip(a1), 10), 99)).arc());
                    machines.push(base(a2, 0).with(Forward::new(Endpoints::new(Endpoint::new(ip(a2), 9), Endpoint::new(ip(a3), 9)))).arc());
                    machines.push(base(a3, 0).with(Capture::new(Endpoint::new(ip(a3), 9), 1000)).arc());
                }
                Builtin::PingPongPair => {
                    machines.push(base(a1, 0).with(PingPong::new(true, Endpoints::new(Endpoint::new(ip(a1), 7), Endpoint::new(ip(a2), 7)))).arc());
                    machines.push(base(a2, 0).with(PingPong::new(false, Endpoints::new(Endpoint::new(ip(a2), 7), Endpoint::new(ip(a1), 7)))).arc());
                }
                Builtin::Dhcp => {
                    let server = 0x7B7B_7B7Bu32;
                    let mk = || Machine::new().with(Udp::new()).with(Ipv4::new(table.clone())).with(Pci::new([nets[0].clone()])).with(Arp::new());
                    machines.push(mk().with(DhcpServer::new(ip(server), IpRange::new(1.into(), 255.into()))).arc());
                    machines.push(mk().with(DhcpClient::new(ip(server))).arc());
                    machines.push(mk().with(DhcpClient::new(ip(server))).arc());
                }
                Builtin::Router => {
                    let r0 = 0x0A00_00FEu32;
                    let r1 = 0x0A00_01FEu32;
                    let h1 = 0x0A00_0101u32;
                    let rt: IpTable<(Option<Ipv4Address>, u32)> = [(ip(a1), (None, 0)), (ip(h1), (None, 1))].into_iter().collect();
                    use elvis_core::protocols::arp::subnetting::{Ipv4Mask, SubnetInfo};
                    machines.push(
                        Machine::new()
                            .with(Udp::new())
                            .with(Ipv4::new([(ip(a1), Recipient::new(0, None))].into_iter().collect()))
                            .with(Pci::new([nets[0].clone()]))
                            .with(SendMessage::new(vec![Message::new("routed")], Endpoint::new(ip(h1), 9)).local_ip(ip(a1)))
                            .with(Arp::new().preconfig_subnet(ip(a1), SubnetInfo { mask: Ipv4Mask::from_bitcount(24), default_gateway: ip(r0) }))
                            .arc(),
                    );
                    machines.push(
                        Machine::new()
                            .with(Pci::new([nets[0].clone(), nets[1].clone()]))
                            .with(Ipv4::new([(ip(r0), Recipient::new(0, None)), (ip(r1), Recipient::new(1, None))].into_iter().collect()))
                            .with(Arp::new())
                            .with(ArpRouter::new(rt, vec![ip(r0), ip(r1)]))
                            .arc(),
                    );
                    machines.push(
                        Machine::new()
                            .with(Udp::new())
                            .with(Ipv4::new([(ip(h1), Recipient::new(0, None))].into_iter().collect()))
                            .with(Pci::new([nets[1].clone()]))
                            .with(Capture::new(Endpoint::new(ip(h1), 9), 1000))
                            .with(Arp::new())
                            .arc(),
                    );
                }
            }
            // harness machines: on network 0, full stack incl. Tcp and SocketAPI so that their start steps are part of the barrier
            for m in 0..slow.len() {
                let addr = 0x0A00_0010 + m as u32;
                let my_reqs: Vec<ShutReq> = reqs.iter().filter(|r| r.machine == m).cloned().collect();
                let slow_ms = slow[m];
                let never_finish = never[m];
                let req_stamps = req_stamps.clone();
                let mut parts = AppParts::new(100 + m, log.clone(), t0);
                parts.barrier_stamps = arrivals.clone();
                parts.setup = Some(Box::new(move |machine, me| {
                    Box::pin(async move {
                        let udp = machine.protocol::<Udp>().unwrap();
                        // listens on the port the built-in senders use, on its own address and on broadcast
                        let _ = udp.listen(me, Endpoint::new(ip(addr), 9), machine.clone());
                        let _ = udp.listen(me, Endpoint::new(ip(0xFFFF_FFFF), 9), machine.clone());
                        if slow_ms > 0 {
                            tokio::time::sleep(ms(slow_ms)).await;
                        }
                    })
                }));
                parts.body = Some(Box::new(move |_machine, _me, shutdown| {
                    Box::pin(async move {
                        let mut handles = vec![];
                        for r in my_reqs {
                            let shutdown = shutdown.clone();
                            let req_stamps = req_stamps.clone();
                            handles.push(tokio::spawn(async move {
                                tokio::time::sleep(ms(r.at_ms)).await;
                                let s0 = stamp();
                                let t = tokio::time::Instant::now().duration_since(t0);
                                shutdown.shut_down_with_status(ExitStatus::Status(r.status));
                                let s1 = stamp();
                                req_stamps.lock().unwrap().push((r.status, s0, s1, t));
                            }));
                        }
                        for h in handles {
                            let _ = h.await;
                        }
                        if never_finish {
                            std::future::pending::<()>().await;
                        }
                    })
                }));
                let mut mach = Machine::new().with(Udp::new()).with(Tcp::new()).with(Ipv4::new(table.clone())).with(Pci::new([nets[0].clone()])).with(SocketAPI::new(Some(ip(addr))));
                if with_arp {
                    mach = mach.with(Arp::new());
                }
                machines.push(with_app(mach, 0, || parts).arc());
            }
            // machines without any protocol: they take part in nothing and must change nothing
            for _ in 0..n_empty {
                machines.push(Machine::new().arc());
            }
            let t_before = tokio::time::Instant::now();
            let status = match huge {
                Some((h, true)) => elvis_core::run_internet(&machines, Some(h)).await,
                Some((h, false)) => run_internet_with_timeout(&machines, h).await,
                None => run_internet_with_timeout(&machines, ms(timeout_ms)).await,
            };
            let elapsed = tokio::time::Instant::now().duration_since(t_before);
            let returned_stamp = stamp();
            // let stragglers (tasks still running after the return) show themselves
            tokio::time::sleep(ms(if multi.is_some() { 20 } else { 2000 })).await;
            (status, elapsed, returned_stamp, rec.snapshot(), machines.len())
        }
    };
    let (status, elapsed, returned_stamp, frames, n_machines) = match multi {
        None => run_paused(fut),
        Some(w) => run_multi(w, fut),
    };
    let arr = arrivals.lock().unwrap().clone();
    let rq = req_stamps.lock().unwrap().clone();
    let events = log.lock().unwrap().clone();
    d.tally("frames_observed", frames.len() as u64);
    d.tally("machines", n_machines as u64);
    d.tally(if multi.is_some() { "runs_multi_thread" } else { "runs_current_thread" }, 1);
    let witness = |extra: Value| json!({"config": desc, "returned": format!("{status:?}"), "elapsed": format!("{elapsed:?}"), "detail": extra});

    // ---- barrier
    // harness apps that arrived at all (with timeout 0 the run may end before some do)
    if arr.len() == n_harness && n_harness > 0 {
        let last_arrival = arr.iter().map(|a| a.0).max().unwrap();
        if let Some(f) = frames.iter().filter(|f| f.stamp < last_arrival).min_by_key(|f| f.stamp) {
            let who = match f.kind {
                Kind::Arp => "ARP",
                Kind::Ipv4 => "IPv4",
                Kind::Other => "other",
            };
            d.violation(
                format!("frame-before-barrier:{who}:{builtin:?}"),
                format!(
                    "a {who} frame from tap {} entered network {} at simulated {:?} (stamp {}) before the last harness application had arrived at the start barrier (stamp {last_arrival}; slow initialisers {:?} ms)",
                    f.sender, f.net_id, f.t_send, f.stamp, slow
                ),
                witness(json!({"frames_before": frames.iter().filter(|f| f.stamp < last_arrival).count()})),
            );
            return;
        }
        if let Some(e) = events.iter().find(|e| e.stamp < last_arrival) {
            d.violation("delivery-before-barrier", format!("a harness application received {} bytes (stamp {}) before the last arrival at the barrier (stamp {last_arrival})", e.payload.len(), e.stamp), witness(json!({})));
            return;
        }
        d.tally("barrier_windows_observed", 1);
    }
    // ---- status
    let t_out = huge.map(|(h, _)| h).unwrap_or(ms(timeout_ms));
    let before: Vec<&(u32, u64, u64, Duration)> = rq.iter().filter(|r| r.1 < returned_stamp).collect();
    match &status {
        ExitStatus::TimedOut => {
            // the timeout cannot win before it has elapsed
            if multi.is_none() && elapsed < t_out {
                d.violation("timed-out-before-the-timeout", format!("the run returned TimedOut after {elapsed:?} of simulated time with a timeout of {t_out:?}"), witness(json!({})));
                return;
            }
            // no request may have *finished* strictly before the timeout instant
            if multi.is_none() {
                if let Some(r) = rq.iter().find(|r| r.3 < t_out) {
                    d.violation("timed-out-despite-earlier-request", format!("the run returned TimedOut although status {} was requested at {:?}, before the timeout of {:?}", r.0, r.3, t_out), witness(json!({"requests": format!("{rq:?}")})));
                    return;
                }
            }
        }
        ExitStatus::Status(s) => {
            let mine = rq.iter().find(|r| r.0 == *s);
            match mine {
                None => {
                    // a built-in application's own status (Capture exit_status) is not used here
                    d.violation("unknown-status-returned", format!("the run returned Status({s}) which nobody requested (yet)"), witness(json!({"requests": format!("{rq:?}")})));
                    return;
                }
                Some(m) => {
                    // no other request finished before this one started
                    // (stamps come from one SeqCst counter: "o.2 < m.1" means o's call had returned before m's began,
                    // also when both happen at the same simulated instant)
                    if let Some(o) = rq.iter().find(|o| o.0 != m.0 && o.2 < m.1) {
                        d.violation(
                            "later-request-won",
                            format!("the run returned Status({}) requested at {:?}, although Status({}) had been requested completely before it at {:?}", m.0, m.3, o.0, o.3),
                            witness(json!({"requests": format!("{rq:?}")})),
                        );
                        return;
                    }
                    if multi.is_none() && m.3 > t_out {
                        d.violation("status-after-timeout-won", format!("Status({}) requested at {:?} won although the timeout {:?} had passed", m.0, m.3, t_out), witness(json!({})));
                        return;
                    }
                }
            }
        }
        ExitStatus::Exited => {
            // nobody asked for the end and nothing in the run can ask for it: only the timeout can end such a run
            if rq.is_empty() && (builtin == Builtin::None || builtin == Builtin::Dhcp) {
                d.violation(
                    "exited-although-nothing-could-end-the-run",
                    format!("the run returned Exited after {elapsed:?} although no shutdown was requested and no application that shuts down was present; only the timeout ({t_out:?}) could end it"),
                    witness(json!({})),
                );
                return;
            }
            // built-in applications (PingPong, Capture) end the run this way; with harness requests earlier that is wrong
            if multi.is_none() {
                if let Some(r) = before.iter().find(|r| r.3 + ms(1) < elapsed.min(t_out)) {
                    // a built-in may legitimately have finished first; only flag when no built-in can end the run
                    if builtin == Builtin::None || builtin == Builtin::Dhcp {
                        d.violation("exited-despite-status-request", format!("the run returned Exited although Status({}) was requested at {:?}", r.0, r.3), witness(json!({})));
                        return;
                    }
                }
            }
        }
    }
    if multi.is_none() && elapsed > t_out.saturating_add(Duration::from_secs(1)) {
        d.violation("returned-later-than-timeout-plus-1s", format!("run_internet_with_timeout({t_out:?}) returned after {elapsed:?} of simulated time"), witness(json!({})));
        return;
    }
    d.saw("returned_statuses", format!("{status:?}").chars().take(9).collect::<String>());
    if slow.iter().any(|s| *s > 0) && builtin != Builtin::None {
        d.nontrivial(crate::fnv_str(&desc.to_string()));
    }
    if case == 0 && k < 2 {
        d.sample(json!({"config": desc, "returned": format!("{status:?}"), "simulated_elapsed": format!("{elapsed:?}"), "frames": frames.len(), "barrier_arrival_stamps": arr}));
    }
    let _ = env;
}

fn run(env: &Env, k: u64, d: &mut Delta) {
    let mut rng = scenario_rng("C13", env.seed, k);
    for case in 0..env.tier.pick(10, 16) {
        let multi = if (k + case) % 5 == 4 { Some(*rng.pick(&[2usize, 4, 16])) } else { None };
        scenario(env, k, case, &mut rng, d, multi);
    }
}
