//! C20 — name resolution returns the registered address and caches it.

use crate::net::*;
use crate::{scenario_rng, Delta, Env, PropDef, RngExt};
use elvis_core::{
    network::{Latency, NetworkBuilder},
    protocols::{
        dns::dns_parsing::DnsMessage,
        ipv4::{ipv4_parsing::Ipv4Header, Ipv4, Ipv4Address, Recipient},
        Arp, DnsClient, DnsServer, Pci, SocketAPI, Tcp, Udp,
    },
    run_internet_with_timeout, ExitStatus, IpTable, Machine,
};
use rand::Rng;
use serde_json::{json, Value};
use std::{
    sync::{Arc, Mutex},
    time::Duration,
};

pub static DEF: PropDef = PropDef {
    id: "C20",
    level: "exploration",
    total: |t| t.pick(512, 11200),
    run,
    rule: "record sets of 1..8 names (any printable ASCII other than the space delimiter, upper and lower case, 1..61 characters, incl. names that make the query longer than 80 bytes; one name in five has a meaning to resolvers elsewhere - dotted quads and other address literals, localhost, wildcards, roots, host:port -; one name in three is a near-duplicate of another record: same letters in another case, one character changed, a proper prefix, an extension, a trailing dot) with arbitrary addresses (0.0.0.0, 255.255.255.255, 127.0.0.1, the server's own address and addresses shared by two records over-represented) registered at the authoritative server; 1..10 clients each performing a sequence of lookups (first lookup of a name is cold, repeats must be cache hits) - one client in three runs 2..3 such sequences over disjoint names at the same time, so that several of its lookups are in flight together -, all clients concurrently, with 0..8 ms latency jitter so replies overtake each other; the server is told to serve exactly the number of cold queries. Every return value of DnsClient::get_host_by_name is compared with the record; every DNS frame seen by the H4 hook is decoded: a response must echo the identifier and name of the query sent from the port it goes to; between a successful lookup and the end of the following repeats of the same name by the same client the hook must see no new frame from that client. Non-trivial = >=2 clients, >=2 names and >=1 cache hit; distinct by scenario hash.",
    assumptions: &["only names that have a record are looked up (the statement is about those)", "a client's concurrent lookup sequences use disjoint names (two cold lookups of one name in flight at once would make the number of queries the server has to serve unpredictable); the no-traffic rule for repeats is only applied to clients with a single sequence"],
    may_exit_process: true,
    watchdog_s: 120,
    nt_floor: |t| t.pick(20, 300),
};

fn ip(x: u32) -> Ipv4Address {
    Ipv4Address::from(x)
}

#[derive(Clone, Debug)]
struct LookupRes {
    client: usize,
    step: usize,
    name: String,
    result: Result<u32, String>,
    frames_before: usize,
    frames_after: usize,
    cold: bool,
    /// how many lookup sequences the client ran at the same time (frames are only attributable when 1)
    lanes: usize,
}

/// Names that mean something special to resolvers elsewhere - address literals in every notation, localhost,
/// wildcards, roots, service and port syntax. Here a name is an opaque string and the record decides.
fn special_name(rng: &mut impl Rng) -> String {
    match rng.gen_range(0..14) {
        0 => format!("{}.{}.{}.{}", rng.gen::<u8>(), rng.gen::<u8>(), rng.gen::<u8>(), rng.gen::<u8>()),
        1 => (*rng.pick(&["0.0.0.0", "127.0.0.1", "255.255.255.255", "10.0.0.1", "1.1.1.1", "4.3.2.1"])).to_string(),
        2 => format!("{}.{}.{}", rng.gen::<u8>(), rng.gen::<u8>(), rng.gen::<u8>()),
        3 => format!("{}.{}.{}.{}.{}", rng.gen::<u8>(), rng.gen::<u8>(), rng.gen::<u8>(), rng.gen::<u8>(), rng.gen::<u8>()),
        4 => format!("0{}.0{}.0{}.0{}", rng.gen_range(0..8), rng.gen_range(0..8), rng.gen_range(0..8), rng.gen_range(0..8)),
        5 => format!("{}", rng.gen::<u32>()),
        6 => format!("0x{:08x}", rng.gen::<u32>()),
        7 => (*rng.pick(&["localhost", "localhost.", "LOCALHOST", "localhost.localdomain", "ip6-localhost", "broadcasthost"])).to_string(),
        8 => (*rng.pick(&["*", "*.com", "*.", ".", "..", "a..b", ".com", "com."])).to_string(),
        9 => (*rng.pick(&["::1", "[::1]", "::ffff:10.0.0.1", "fe80::1%eth0", "[10.0.0.1]"])).to_string(),
        10 => format!("{}.{}.{}.{}:{}", rng.gen::<u8>(), rng.gen::<u8>(), rng.gen::<u8>(), rng.gen::<u8>(), rng.gen::<u16>()),
        11 => format!("{}.{}.{}.{}.in-addr.arpa", rng.gen::<u8>(), rng.gen::<u8>(), rng.gen::<u8>(), rng.gen::<u8>()),
        12 => (*rng.pick(&["_dns._udp.example", "user@host", "host:53", "http://host/", "a/b", "\\host", "'quoted'", "\"q\"", "%00", "null", "-", "0"])).to_string(),
        _ => format!("{}.{}.{}.{}.", rng.gen::<u8>(), rng.gen::<u8>(), rng.gen::<u8>(), rng.gen::<u8>()),
    }
}

fn gen_name(rng: &mut impl Rng) -> String {
    if rng.chance(1, 5) {
        return special_name(rng);
    }
    let n = *rng.pick(&[1usize, 3, 10, 24, 25, 40, 60]);
    (0..n)
        .map(|i| {
            if i > 0 && i % 7 == 6 {
                '.'
            } else {
                // any printable character other than the space delimiter; letters are favoured
                match rng.gen_range(0..4) {
                    0 => rng.gen_range(0x21u8..=0x7e) as char,
                    1 => rng.gen_range(b'A'..=b'Z') as char,
                    _ => (b"abcdefghijklmnopqrstuvwxyz0123456789-_"[rng.gen_range(0..38)]) as char,
                }
            }
        })
        .collect()
}

/// A name that is easily confused with `base`: same letters in another case, one character changed,
/// a proper prefix, an extension, or a trailing dot. Distinct records must stay distinct at every layer.
fn near_name(base: &str, rng: &mut impl Rng) -> String {
    let mut c: Vec<char> = base.chars().collect();
    match rng.gen_range(0..6) {
        0 => c.iter().map(|x| x.to_ascii_uppercase()).collect(),
        1 => c.iter().map(|x| x.to_ascii_lowercase()).collect(),
        2 => {
            let i = rng.gen_range(0..c.len());
            c[i] = if c[i].is_ascii_lowercase() { c[i].to_ascii_uppercase() } else if c[i].is_ascii_uppercase() { c[i].to_ascii_lowercase() } else { 'x' };
            c.into_iter().collect()
        }
        3 => {
            let n = rng.gen_range(1..=c.len());
            c.truncate(n);
            c.into_iter().collect()
        }
        4 => {
            c.push(rng.gen_range(0x21u8..=0x7e) as char);
            c.into_iter().collect()
        }
        _ => {
            c.push('.');
            c.into_iter().collect()
        }
    }
}

fn scenario(env: &Env, k: u64, case: u64, rng: &mut rand::rngs::SmallRng, d: &mut Delta) {
    d.evaluations += 1;
    let n_names = rng.gen_range(1..=8usize);
    let mut names: Vec<(String, u32)> = vec![];
    while names.len() < n_names {
        let nm = if !names.is_empty() && rng.chance(1, 3) {
            let b = rng.gen_range(0..names.len());
            let base = names[b].0.clone();
            near_name(&base, rng)
        } else {
            gen_name(rng)
        };
        if !names.iter().any(|x| x.0 == nm) && nm != "testserver.com" && nm != "google.com" {
            // arbitrary addresses, with the special ones over-represented: unspecified, limited broadcast,
            // loopback, the server's own, an address another record already has
            let addr: u32 = match rng.gen_range(0..10) {
                0 => 0,
                1 => 0xFFFF_FFFF,
                2 => 0x7F00_0001,
                3 => 0x0103_0307,
                4 if !names.is_empty() => names[rng.gen_range(0..names.len())].1,
                _ => rng.gen(),
            };
            names.push((nm, addr));
        }
    }
    let n_clients = rng.gen_range(1..=10usize);
    let with_arp = rng.chance(1, 2) && std::env::var("C20_NOARP").is_err();
    let jitter = *rng.pick(&[0u64, 1, 8]);
    // per client: 1..3 lanes running at the same time, each a sequence of indices into names. A client with
    // several lanes has several lookups in flight at once; its lanes use disjoint names (index mod lanes), so
    // that the number of cold queries stays known in advance.
    let mut plans: Vec<Vec<Vec<usize>>> = vec![];
    let mut cold_total = 0usize;
    for _ in 0..n_clients {
        let lanes = if std::env::var("C20_NOLANES").is_err() && n_names >= 2 && rng.chance(1, 3) { rng.gen_range(2..=3usize.min(n_names)) } else { 1 };
        let mut client = vec![];
        for lane in 0..lanes {
            let mine: Vec<usize> = (0..n_names).filter(|i| i % lanes == lane).collect();
            let steps = rng.gen_range(1..=6);
            let mut seen = vec![];
            let mut p = vec![];
            for _ in 0..steps {
                let i = if !seen.is_empty() && rng.chance(1, 2) { *rng.pick(&seen) } else { *rng.pick(&mine) };
                if !seen.contains(&i) {
                    seen.push(i);
                    cold_total += 1;
                }
                p.push(i);
            }
            client.push(p);
        }
        plans.push(client);
    }
    let desc = json!({
        "names": names.iter().map(|(n, a)| format!("{n} -> {}", ip(*a))).collect::<Vec<_>>(),
        "clients": n_clients, "arp": with_arp, "jitter_ms": jitter, "lookups": plans, "cold_queries": cold_total, "scenario": k, "case": case,
    });
    let results: Arc<Mutex<Vec<LookupRes>>> = Arc::new(Mutex::new(vec![]));
    let (status, frames, client_macs) = {
        let names = names.clone();
        let plans = plans.clone();
        let results = results.clone();
        run_paused(async move {
            let mut b = NetworkBuilder::new();
            if jitter > 0 {
                b = b.latency(Latency::variable(ms(0), ms(jitter)));
            }
            let net = b.build();
            let rec = Recorder::passive();
            net.set_verif_hook(rec.clone());
            let t0 = tokio::time::Instant::now();
            let log: Log = Arc::new(Mutex::new(vec![]));
            let table: IpTable<Recipient> = [("0.0.0.0/0", Recipient::new(0, None))].into_iter().collect();
            let mk = |addr: Ipv4Address| {
                let mut m = Machine::new().with(Udp::new()).with(Tcp::new()).with(Ipv4::new(table.clone())).with(Pci::new([net.clone()])).with(SocketAPI::new(Some(addr)));
                if with_arp {
                    m = m.with(Arp::new());
                }
                m
            };
            let server = DnsServer::new(cold_total as u16);
            for (n, a) in &names {
                server.add_mapping(n.clone(), ip(*a));
            }
            let mut machines = vec![mk(Ipv4Address::DNS_AUTH).with(server).arc()];
            let remaining = Arc::new(std::sync::atomic::AtomicUsize::new(plans.len()));
            let mut client_macs = vec![];
            for (c, plan) in plans.iter().cloned().enumerate() {
                let names = names.clone();
                let results = results.clone();
                let rec2 = rec.clone();
                let remaining = remaining.clone();
                let mut parts = AppParts::new(1 + c, log.clone(), t0);
                parts.body = Some(Box::new(move |machine, _me, shutdown| {
                    Box::pin(async move {
                        let dns = machine.protocol::<DnsClient>().unwrap();
                        let my_mac = machine.protocol::<Pci>().unwrap().mac_addresses().next().unwrap();
                        let lanes = plan.len();
                        let mut lane_tasks = vec![];
                        for (lane, lane_plan) in plan.into_iter().enumerate() {
                            let (dns, machine, names, results, rec2) = (dns.clone(), machine.clone(), names.clone(), results.clone(), rec2.clone());
                            lane_tasks.push(tokio::spawn(async move {
                                let mut seen: Vec<usize> = vec![];
                                for (step, i) in lane_plan.iter().enumerate() {
                                    let count = |r: &Recorder| r.frames.lock().unwrap().iter().filter(|f| f.sender == my_mac).count();
                                    let before = count(&rec2);
                                    // a lookup that gets no answer is given up after 10 s of simulated time (dropping the
                                    // future), so that it is reported as such instead of dying with the run's shutdown
                                    let r = match tokio::time::timeout(Duration::from_secs(10), dns.get_host_by_name(names[*i].0.clone(), machine.clone())).await {
                                        Ok(r) => r.map_err(|e| format!("{e:?}")),
                                        Err(_) => Err("no answer within 10 s of simulated time".to_string()),
                                    };
                                    // let anything this lookup may have triggered hit the wire before counting
                                    tokio::time::sleep(ms(1)).await;
                                    let after = count(&rec2);
                                    let cold = !seen.contains(i);
                                    seen.push(*i);
                                    results.lock().unwrap().push(LookupRes {
                                        client: c,
                                        step: lane * 100 + step,
                                        name: names[*i].0.clone(),
                                        result: r.map(|a| a.to_u32()),
                                        frames_before: before,
                                        frames_after: after,
                                        cold,
                                        lanes,
                                    });
                                }
                            }));
                        }
                        for t in lane_tasks {
                            let _ = t.await;
                        }
                        if remaining.fetch_sub(1, std::sync::atomic::Ordering::SeqCst) == 1 {
                            tokio::time::sleep(ms(50)).await;
                            shutdown.shut_down_with_status(ExitStatus::Status(0));
                        }
                    })
                }));
                let m = mk(ip(0x0A00_0100 + c as u32)).with(DnsClient::new());
                client_macs.push(m.protocol::<Pci>().unwrap().mac_addresses().next().unwrap());
                machines.push(with_app(m, 0, || parts).arc());
            }
            let status = run_internet_with_timeout(&machines, Duration::from_secs(30)).await;
            (status, rec.snapshot(), client_macs)
        })
    };
    let res = results.lock().unwrap().clone();
    let total_lookups: usize = plans.iter().map(|p| p.iter().map(|l| l.len()).sum::<usize>()).sum();
    d.tally("lookups", total_lookups as u64);
    d.tally("frames", frames.len() as u64);
    let witness = |extra: Value| json!({"scenario": desc, "status": format!("{status:?}"), "detail": extra});
    if res.len() != total_lookups {
        d.violation(
            "lookup-never-returned",
            format!("{} of {} lookups returned before the run ended with {:?}", res.len(), total_lookups, status),
            witness(json!({"returned": res.iter().map(|r| format!("c{} step{} {}", r.client, r.step, r.name)).collect::<Vec<_>>()})),
        );
        return;
    }
    let mut cache_hits = 0;
    for r in &res {
        let want = names.iter().find(|n| n.0 == r.name).unwrap().1;
        match &r.result {
            Ok(a) if *a == want => {}
            Ok(a) => {
                d.violation("wrong-address", format!("client {} resolved {:?} to {} but the record says {}", r.client, r.name, ip(*a), ip(want)), witness(json!({"lookup": format!("{r:?}")})));
                return;
            }
            Err(e) => {
                d.violation("lookup-failed", format!("client {} failed to resolve the registered name {:?}: {e}", r.client, r.name), witness(json!({"lookup": format!("{r:?}")})));
                return;
            }
        }
        if !r.cold {
            cache_hits += 1;
        }
        if r.lanes > 1 {
            // frames of this client's other lanes fall into the window: only the result is judged
            continue;
        }
        if !r.cold {
            if r.frames_after != r.frames_before {
                d.violation(
                    "cache-hit-put-frames-on-the-network",
                    format!("client {} looked {:?} up again and {} new frame(s) left its tap", r.client, r.name, r.frames_after - r.frames_before),
                    witness(json!({"lookup": format!("{r:?}")})),
                );
                return;
            }
        } else if r.frames_after == r.frames_before {
            d.violation("cold-lookup-without-traffic", format!("client {} resolved {:?} for the first time without sending anything", r.client, r.name), witness(json!({"lookup": format!("{r:?}")})));
            return;
        }
    }
    // DNS frames: pair queries and responses by client port
    let mut queries: Vec<(u32, u16, u16, Vec<u8>)> = vec![]; // (client ip, client port, id, name)
    for f in frames.iter().filter(|f| f.kind == Kind::Ipv4 && f.bytes.len() >= 28) {
        let h = match Ipv4Header::from_bytes(f.bytes.iter().cloned()) {
            Ok(h) => h,
            Err(_) => continue,
        };
        if h.protocol != 17 {
            continue;
        }
        let sp = u16::from_be_bytes([f.bytes[20], f.bytes[21]]);
        let dp = u16::from_be_bytes([f.bytes[22], f.bytes[23]]);
        let msg = match DnsMessage::from_bytes(f.bytes[28..].iter().cloned()) {
            Ok(m) => m,
            Err(_) => {
                d.violation("undecodable-dns-frame", format!("a UDP frame {}:{} -> {}:{} on the DNS exchange does not decode", h.source, sp, h.destination, dp), witness(json!({})));
                return;
            }
        };
        if dp == 53 {
            queries.push((h.source.to_u32(), sp, msg.header.id, msg.question.qname.clone()));
        } else if sp == 53 {
            let q = queries.iter().find(|q| q.0 == h.destination.to_u32() && q.1 == dp);
            match q {
                None => {
                    d.violation("response-without-query", format!("a response goes to {}:{} from where no query came", h.destination, dp), witness(json!({})));
                    return;
                }
                Some(q) => {
                    if msg.header.id != q.2 || msg.question.qname != q.3 || msg.answer.name != q.3 {
                        d.violation(
                            "response-does-not-echo-query",
                            format!("the response to {}:{} carries id {} name {:?}; the query from that port had id {} name {:?}", h.destination, dp, msg.header.id, String::from_utf8_lossy(&msg.question.qname), q.2, String::from_utf8_lossy(&q.3)),
                            witness(json!({})),
                        );
                        return;
                    }
                    let want = names.iter().find(|n| n.0.as_bytes() == &q.3[..]).map(|n| n.1);
                    if want.map(|w| w.to_be_bytes().to_vec()) != Some(msg.answer.rdata.clone()) {
                        d.violation("response-carries-wrong-address", format!("the response for {:?} carries {:?}", String::from_utf8_lossy(&q.3), msg.answer.rdata), witness(json!({})));
                        return;
                    }
                    d.tally("responses_checked", 1);
                }
            }
        }
    }
    if queries.len() != cold_total {
        d.violation("query-count", format!("{} DNS queries were put on the wire for {} cold lookups", queries.len(), cold_total), witness(json!({})));
        return;
    }
    if n_clients >= 2 && n_names >= 2 && cache_hits >= 1 {
        d.nontrivial(crate::fnv_str(&desc.to_string()));
    }
    if case == 0 && k < 2 {
        d.sample(json!({"scenario": desc, "frames": frames.len(), "cache_hits": cache_hits}));
    }
    let _ = (env, client_macs);
}

fn run(env: &Env, k: u64, d: &mut Delta) {
    let mut rng = scenario_rng("C20", env.seed, k);
    for case in 0..env.tier.pick(24, 40) {
        scenario(env, k, case, &mut rng, d);
    }
}
