//! C07 — Message behaves as an immutable byte string under all operations.
//!
//! Differential execution against `Vec<u8>`: a pool of (Message, Vec<u8>)
//! pairs; after every operation every pool member is compared with its model
//! (len, iter, to_vec, Display length, equality against every other member).
//! Comparing the *whole* pool after each step is what decides "operating on
//! one never changes another".

use crate::{catch, hex, mix, scenario_rng, split_panic, Delta, Env, PropDef, RngExt, Tier};
use elvis_core::Message;
use rand::Rng;
use serde_json::{json, Value};

pub static DEF: PropDef = PropDef {
    id: "C07",
    level: "exploration",
    total: |t| t.pick(1024, 32000),
    run,
    rule: "random operation sequences (new from 5 source types incl. empty, header, concatenate incl. with own clone, slice by all six range forms with endpoints at 0/1/chunk boundary±1/len-1/len, cut, remove_front, clone, drop; out-of-range arguments expected to panic) over a pool of <=8 messages compared against Vec<u8> after every step; plus exhaustive enumeration of all op sequences up to depth 3 (quick) / 4 (thorough) from every 2-chunk start of <=3+3 bytes. Non-trivial = the sequence created >=2 aliases of one buffer (clone/cut/self-concatenate) AND performed a cut/slice/remove_front exactly on an interior chunk boundary; distinct by hash of the op sequence.",
    assumptions: &[
        "Vec<u8> slicing semantics are the reference for every operation",
        "ranges with start > end are not generated (Vec panics on them, Message::slice treats a..b with a>b as empty: judged outside 'any range form' of a byte vector)",
    ],
    may_exit_process: false,
    watchdog_s: 300,
    nt_floor: |t| t.pick(200, 5000),
};

#[derive(Clone)]
struct Member {
    msg: Message,
    model: Vec<u8>,
    /// chunk lengths as the harness believes them to be (only used to aim at
    /// boundaries and to classify non-triviality, never by the oracle)
    chunks: Vec<usize>,
    /// identity of the buffers this member (partly) shares
    family: u32,
}

fn boundaries(chunks: &[usize]) -> Vec<usize> {
    let mut out = vec![];
    let mut acc = 0;
    for c in chunks {
        acc += c;
        out.push(acc);
    }
    out.pop(); // total length is not interior
    out
}

fn chunks_slice(chunks: &[usize], start: usize, len: usize) -> Vec<usize> {
    // mirror of "keep the window [start, start+len)"
    let mut out = vec![];
    let mut pos = 0;
    let end = start + len;
    for &c in chunks {
        let lo = pos.max(start);
        let hi = (pos + c).min(end);
        if hi > lo {
            out.push(hi - lo);
        }
        pos += c;
    }
    out
}

fn pick_endpoint(rng: &mut impl Rng, m: &Member) -> usize {
    let len = m.model.len();
    let b = boundaries(&m.chunks);
    match rng.gen_range(0..10) {
        0 => 0,
        1 => 1.min(len),
        2 => len,
        3 => len.saturating_sub(1),
        4 | 5 | 6 if !b.is_empty() => {
            let x = b[rng.gen_range(0..b.len())];
            match rng.gen_range(0..3) {
                0 => x.saturating_sub(1),
                1 => x,
                _ => (x + 1).min(len),
            }
        }
        7 => len + 1 + rng.gen_range(0..3), // out of range
        _ => {
            if len == 0 {
                0
            } else {
                rng.gen_range(0..=len)
            }
        }
    }
}

fn check_pool(pool: &[Member], d: &mut Delta, ops: &[Value], phase: &str) -> bool {
    for (i, m) in pool.iter().enumerate() {
        let r = catch(|| {
            let len = m.msg.len();
            let it: Vec<u8> = m.msg.iter().collect();
            let tv = m.msg.to_vec();
            let disp = format!("{}", m.msg);
            (len, it, tv, disp.len(), m.msg.is_empty())
        });
        match r {
            Err(e) => {
                let (msg, loc) = split_panic(&e);
                d.violation(
                    format!("observer-panic:{loc}"),
                    format!("observing member {i} panicked: {msg}"),
                    json!({"phase": phase, "ops": ops, "member": i}),
                );
                return false;
            }
            Ok((len, it, tv, displen, empty)) => {
                let bad = if len != m.model.len() {
                    Some("len")
                } else if it != m.model {
                    Some("iter")
                } else if tv != m.model {
                    Some("to_vec")
                } else if displen != 3 * m.model.len() {
                    Some("display")
                } else if empty != m.model.is_empty() {
                    Some("is_empty")
                } else {
                    None
                };
                if let Some(which) = bad {
                    d.violation(
                        format!("mismatch:{which}"),
                        format!(
                            "member {i} differs from its byte-vector model in {which}: got len {} bytes {} expected len {} bytes {}",
                            len,
                            hex(&it),
                            m.model.len(),
                            hex(&m.model)
                        ),
                        json!({"phase": phase, "ops": ops, "member": i}),
                    );
                    return false;
                }
            }
        }
    }
    // equality relation
    for i in 0..pool.len() {
        for j in 0..pool.len() {
            let eq = pool[i].msg == pool[j].msg;
            let want = pool[i].model == pool[j].model;
            if eq != want {
                d.violation(
                    "mismatch:eq",
                    format!("Message == disagrees with byte equality for members {i},{j}: got {eq} want {want}"),
                    json!({"phase": phase, "ops": ops}),
                );
                return false;
            }
        }
    }
    true
}

fn new_member(rng: &mut impl Rng, family: u32, ops: &mut Vec<Value>) -> Member {
    let n = *rng.pick(&[0usize, 0, 1, 2, 3, 5, 8, 13, 40]);
    let bytes: Vec<u8> = if rng.chance(1, 2) {
        // ascii so that &str / String constructors can be used
        (0..n).map(|_| rng.gen_range(0x20u8..0x7f)).collect()
    } else {
        rng.bytes(n)
    };
    let ascii = bytes.iter().all(|b| b.is_ascii());
    let form = rng.gen_range(0..6);
    let msg = match form {
        0 => Message::new(bytes.clone()),
        1 => Message::new(bytes.as_slice()),
        2 if ascii => Message::new(std::str::from_utf8(&bytes).unwrap()),
        3 if ascii => Message::new(String::from_utf8(bytes.clone()).unwrap()),
        4 => Message::from(bytes.clone()),
        _ => Message::from(bytes.as_slice()),
    };
    ops.push(json!({"op": "new", "form": form, "bytes": hex(&bytes)}));
    Member {
        msg,
        model: bytes,
        chunks: vec![n],
        family,
    }
}

fn random_sequence(env: &Env, k: u64, d: &mut Delta) {
    let mut rng = scenario_rng("C07", env.seed, k);
    let per_scenario = env.tier.pick3(320, 1250, 5);
    for case in 0..per_scenario {
        d.evaluations += 1;
        let mut ops: Vec<Value> = vec![];
        let mut pool: Vec<Member> = vec![];
        let mut next_family = 0u32;
        let mut aliases = 0u32; // clone / cut / self-concat
        let mut boundary_cut = false;
        pool.push(new_member(&mut rng, next_family, &mut ops));
        next_family += 1;
        let steps = rng.gen_range(5..40);
        let mut ok = true;
        for _ in 0..steps {
            if pool.is_empty() {
                pool.push(new_member(&mut rng, next_family, &mut ops));
                next_family += 1;
            }
            let i = rng.gen_range(0..pool.len());
            let choice = rng.gen_range(0..100);
            if choice < 8 && pool.len() < 8 {
                pool.push(new_member(&mut rng, next_family, &mut ops));
                next_family += 1;
            } else if choice < 20 {
                // header
                let n = *rng.pick(&[0usize, 1, 2, 8, 20]);
                let h = rng.bytes(n);
                ops.push(json!({"op": "header", "m": i, "bytes": hex(&h)}));
                let m = &mut pool[i];
                match rng.gen_range(0..3) {
                    0 => m.msg.header(h.clone()),
                    1 => m.msg.header(h.as_slice()),
                    _ => {
                        // array form where the size allows
                        if n == 2 {
                            m.msg.header([h[0], h[1]])
                        } else {
                            m.msg.header(h.clone())
                        }
                    }
                }
                let mut nm = h.clone();
                nm.extend_from_slice(&m.model);
                m.model = nm;
                m.chunks.insert(0, n);
            } else if choice < 32 {
                // concatenate i with clone of j (possibly itself)
                let j = rng.gen_range(0..pool.len());
                ops.push(json!({"op": "concatenate", "m": i, "other": j}));
                let other = pool[j].clone();
                if pool[j].family == pool[i].family {
                    aliases += 1;
                }
                let m = &mut pool[i];
                m.msg.concatenate(other.msg);
                m.model.extend_from_slice(&other.model);
                m.chunks.extend_from_slice(&other.chunks);
            } else if choice < 60 {
                // slice
                let a = pick_endpoint(&mut rng, &pool[i]);
                let b = pick_endpoint(&mut rng, &pool[i]);
                let (a, b) = if a <= b { (a, b) } else { (b, a) };
                let form = rng.gen_range(0..6);
                let len = pool[i].model.len();
                // window [s, e) in model terms; valid iff e <= len
                let (s, e, desc) = match form {
                    0 => (a, b, format!("{a}..{b}")),
                    1 => (a, len.max(a), format!("{a}..")),
                    2 => (0, len, "..".to_string()),
                    3 => (a, b + 1, format!("{a}..={b}")),
                    4 => (0, b, format!("..{b}")),
                    _ => (0, b + 1, format!("..={b}")),
                };
                ops.push(json!({"op": "slice", "m": i, "range": desc}));
                let valid = s <= e && e <= len && (form != 1 || a <= len);
                let bset = boundaries(&pool[i].chunks);
                let m = &mut pool[i];
                let r = catch(|| match form {
                    0 => m.msg.slice(a..b),
                    1 => m.msg.slice(a..),
                    2 => m.msg.slice(..),
                    3 => m.msg.slice(a..=b),
                    4 => m.msg.slice(..b),
                    _ => m.msg.slice(..=b),
                });
                match (valid, r) {
                    (true, Ok(())) => {
                        if (s > 0 && bset.contains(&s)) || (e < len && bset.contains(&e)) {
                            boundary_cut = true;
                        }
                        m.model = m.model[s..e].to_vec();
                        m.chunks = chunks_slice(&m.chunks, s, e - s);
                    }
                    (true, Err(err)) => {
                        let (msg, loc) = split_panic(&err);
                        d.violation(
                            format!("panic-on-valid-slice:{loc}"),
                            format!("slice({desc}) on a message of {len} bytes panicked: {msg}"),
                            json!({"ops": ops}),
                        );
                        ok = false;
                        break;
                    }
                    (false, Ok(())) => {
                        d.violation(
                            "out-of-range-slice-accepted",
                            format!("slice({desc}) on a message of {len} bytes did not panic although a byte vector would"),
                            json!({"ops": ops}),
                        );
                        ok = false;
                        break;
                    }
                    (false, Err(_)) => {
                        d.tally("expected_panics", 1);
                        pool.remove(i);
                    }
                }
            } else if choice < 75 {
                // cut
                let kcut = pick_endpoint(&mut rng, &pool[i]);
                ops.push(json!({"op": "cut", "m": i, "k": kcut}));
                let len = pool[i].model.len();
                let bset = boundaries(&pool[i].chunks);
                let fam = pool[i].family;
                let m = &mut pool[i];
                let r = catch(|| m.msg.cut(kcut));
                match (kcut <= len, r) {
                    (true, Ok(front)) => {
                        if bset.contains(&kcut) {
                            boundary_cut = true;
                        }
                        aliases += 1;
                        let fm = m.model[..kcut].to_vec();
                        let fc = chunks_slice(&m.chunks, 0, kcut);
                        m.chunks = chunks_slice(&m.chunks, kcut, len - kcut);
                        m.model = m.model[kcut..].to_vec();
                        if pool.len() < 8 {
                            pool.push(Member {
                                msg: front,
                                model: fm,
                                chunks: fc,
                                family: fam,
                            });
                        } else {
                            // still compare the piece once
                            if front.to_vec() != fm || front.len() != fm.len() {
                                d.violation(
                                    "mismatch:cut-front",
                                    format!("cut({kcut}) returned {} expected {}", hex(&front.to_vec()), hex(&fm)),
                                    json!({"ops": ops}),
                                );
                                ok = false;
                                break;
                            }
                        }
                    }
                    (true, Err(err)) => {
                        let (msg, loc) = split_panic(&err);
                        d.violation(
                            format!("panic-on-valid-cut:{loc}"),
                            format!("cut({kcut}) on {len} bytes panicked: {msg}"),
                            json!({"ops": ops}),
                        );
                        ok = false;
                        break;
                    }
                    (false, Ok(_)) => {
                        d.violation(
                            "out-of-range-cut-accepted",
                            format!("cut({kcut}) on {len} bytes did not panic"),
                            json!({"ops": ops}),
                        );
                        ok = false;
                        break;
                    }
                    (false, Err(_)) => {
                        d.tally("expected_panics", 1);
                        pool.remove(i);
                    }
                }
            } else if choice < 85 {
                let kcut = pick_endpoint(&mut rng, &pool[i]);
                ops.push(json!({"op": "remove_front", "m": i, "k": kcut}));
                let len = pool[i].model.len();
                let bset = boundaries(&pool[i].chunks);
                let m = &mut pool[i];
                let r = catch(|| m.msg.remove_front(kcut));
                match (kcut <= len, r) {
                    (true, Ok(())) => {
                        if bset.contains(&kcut) {
                            boundary_cut = true;
                        }
                        m.chunks = chunks_slice(&m.chunks, kcut, len - kcut);
                        m.model = m.model[kcut..].to_vec();
                    }
                    (true, Err(err)) => {
                        let (msg, loc) = split_panic(&err);
                        d.violation(
                            format!("panic-on-valid-remove_front:{loc}"),
                            format!("remove_front({kcut}) on {len} bytes panicked: {msg}"),
                            json!({"ops": ops}),
                        );
                        ok = false;
                        break;
                    }
                    (false, Ok(())) => {
                        d.violation(
                            "out-of-range-remove_front-accepted",
                            format!("remove_front({kcut}) on {len} bytes did not panic"),
                            json!({"ops": ops}),
                        );
                        ok = false;
                        break;
                    }
                    (false, Err(_)) => {
                        d.tally("expected_panics", 1);
                        pool.remove(i);
                    }
                }
            } else if choice < 94 {
                if pool.len() < 8 {
                    ops.push(json!({"op": "clone", "m": i}));
                    let c = pool[i].clone();
                    pool.push(c);
                    aliases += 1;
                }
            } else {
                ops.push(json!({"op": "drop", "m": i}));
                pool.remove(i);
            }
            d.tally("operations", 1);
            if !check_pool(&pool, d, &ops, "random") {
                ok = false;
                break;
            }
        }
        if ok && aliases >= 2 && boundary_cut {
            d.nontrivial(mix(k, crate::fnv_str(&serde_json::to_string(&ops).unwrap())));
        }
        if case == 0 && k < 3 {
            d.sample(json!({"kind": "random-sequence", "ops": ops}));
        }
        if !ok && env.verbose {
            println!("failing ops: {}", serde_json::to_string_pretty(&ops).unwrap());
        }
    }
}

/// Exhaustive enumeration of all op sequences up to `depth` from one start.
fn exhaustive(env: &Env, k: u64, d: &mut Delta) {
    // start shapes: (a, b) chunk lengths 0..=3 each → 16 starts; k selects one
    let starts: Vec<(usize, usize)> = (0..=3).flat_map(|a| (0..=3).map(move |b| (a, b))).collect();
    let (a, b) = starts[(k as usize) % starts.len()];
    let depth = env.tier.pick(3, 4);
    let body: Vec<u8> = (0..b as u8).map(|x| 0xb0 + x).collect();
    let head: Vec<u8> = (0..a as u8).map(|x| 0xa0 + x).collect();
    let mut msg = Message::new(body.clone());
    msg.header(head.clone());
    let mut model = head.clone();
    model.extend_from_slice(&body);
    let start = Member {
        msg,
        model,
        chunks: vec![a, b],
        family: 0,
    };
    let mut trail: Vec<String> = vec![format!("start chunks {a}+{b}")];
    let mut count = 0u64;
    let mut nt = 0u64;
    rec(&start, &[], depth, &mut trail, d, &mut count, &mut nt, 0, false);
    d.evaluations += count;
    d.tally("exhaustive_sequences", count);
    // every complete sequence that aliased and cut on the boundary is one distinct non-trivial case
    for i in 0..nt.min(50_000) {
        d.nontrivial(mix(mix(0xE7, k), i));
    }
    d.tally("exhaustive_nontrivial_sequences", nt);
    if k == 0 {
        d.sample(json!({"kind": "exhaustive", "start_chunks": [a, b], "depth": depth, "sequences": count}));
    }
}

#[allow(clippy::too_many_arguments)]
fn rec(
    cur: &Member,
    others: &[Member],
    depth: u32,
    trail: &mut Vec<String>,
    d: &mut Delta,
    count: &mut u64,
    nt: &mut u64,
    aliases: u32,
    bcut: bool,
) {
    // check everything alive
    let mut pool: Vec<Member> = others.to_vec();
    pool.push(cur.clone());
    let ops: Vec<Value> = trail.iter().map(|s| json!(s)).collect();
    if !check_pool(&pool, d, &ops, "exhaustive") {
        return;
    }
    if depth == 0 {
        *count += 1;
        if aliases >= 1 && bcut {
            *nt += 1;
        }
        return;
    }
    let len = cur.model.len();
    let bset = boundaries(&cur.chunks);
    // slices a..b
    for s in 0..=len {
        for e in s..=len {
            let mut m = cur.clone();
            m.msg.slice(s..e);
            m.model = m.model[s..e].to_vec();
            m.chunks = chunks_slice(&cur.chunks, s, e - s);
            trail.push(format!("slice({s}..{e})"));
            let hit = (s > 0 && bset.contains(&s)) || (e < len && bset.contains(&e));
            rec(&m, others, depth - 1, trail, d, count, nt, aliases, bcut || hit);
            trail.pop();
        }
    }
    for kcut in 0..=len {
        // cut: both pieces stay alive
        let mut m = cur.clone();
        let front = m.msg.cut(kcut);
        let fm = Member {
            msg: front,
            model: cur.model[..kcut].to_vec(),
            chunks: chunks_slice(&cur.chunks, 0, kcut),
            family: 0,
        };
        m.model = cur.model[kcut..].to_vec();
        m.chunks = chunks_slice(&cur.chunks, kcut, len - kcut);
        let mut o2 = others.to_vec();
        if o2.len() < 3 {
            o2.push(fm);
        }
        trail.push(format!("cut({kcut})"));
        rec(&m, &o2, depth - 1, trail, d, count, nt, aliases + 1, bcut || bset.contains(&kcut));
        trail.pop();
        // remove_front
        let mut m = cur.clone();
        m.msg.remove_front(kcut);
        m.model = cur.model[kcut..].to_vec();
        m.chunks = chunks_slice(&cur.chunks, kcut, len - kcut);
        trail.push(format!("remove_front({kcut})"));
        rec(&m, others, depth - 1, trail, d, count, nt, aliases, bcut || bset.contains(&kcut));
        trail.pop();
    }
    // header of one byte
    {
        let mut m = cur.clone();
        m.msg.header(vec![0xcc]);
        m.model.insert(0, 0xcc);
        m.chunks.insert(0, 1);
        trail.push("header(cc)".into());
        rec(&m, others, depth - 1, trail, d, count, nt, aliases, bcut);
        trail.pop();
    }
    // self-concatenate
    if len <= 8 {
        let mut m = cur.clone();
        let c = cur.clone();
        m.msg.concatenate(c.msg);
        m.model.extend_from_slice(&c.model);
        m.chunks.extend_from_slice(&c.chunks);
        trail.push("concatenate(clone of self)".into());
        rec(&m, others, depth - 1, trail, d, count, nt, aliases + 1, bcut);
        trail.pop();
    }
    // clone kept alive while the original continues
    if others.len() < 3 {
        let mut o2 = others.to_vec();
        o2.push(cur.clone());
        trail.push("clone (kept)".into());
        rec(cur, &o2, depth - 1, trail, d, count, nt, aliases + 1, bcut);
        trail.pop();
    }
}

fn run(env: &Env, k: u64, d: &mut Delta) {
    let total = (DEF.total)(env.tier);
    // the last 16 scenarios are the exhaustive small-scope sweep
    if k + 16 >= total && env.tier != Tier::Tiny {
        exhaustive(env, k + 16 - total, d);
    } else {
        random_sequence(env, k, d);
    }
    let _ = Tier::Quick;
}
