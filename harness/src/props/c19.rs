//! C19 — a network description means what it says.

use crate::net::*;
use crate::props::c14::scratch_file;
use crate::{catch, scenario_rng, split_panic, Delta, Env, PropDef, RngExt};
use elvis::ndl::parsing::parsing_data::{Application, DecType, Interfaces, Machine as PMachine, MachineNetwork, Network as PNetwork, Params, Protocol as PProtocol, Sim, IP};
use elvis_core::{
    network::verif::set_default_verif_hook,
    protocols::ipv4::ipv4_parsing::Ipv4Header,
    ExitStatus,
};
use rand::{seq::SliceRandom, Rng};
use serde_json::{json, Value};
use std::{collections::HashMap, time::Duration};

pub static DEF: PropDef = PropDef {
    id: "C19",
    level: "exploration",
    total: |t| t.pick(1280, 20000),
    run,
    rule: "(a) generated description trees (1..3 top-level Networks sections with 1..4 networks of 1..4 ip/range/arbitrary-key entries, 1..6 machines with any options, 1..3 networks, 0..4 protocols and 1..4 applications carrying 0..6 arguments whose values are arbitrary printable ASCII without quote, backslash, closing bracket and 4-space runs, empty values included) are printed by the harness's own renderer in tab, 4-space and CRLF variants with the three machine sections in any order and optional Template lines, parsed by core_parser and compared with the tree; structurally broken renderings (one line indented one level too deep or too shallow, unknown section keyword, a required machine section missing, duplicate network id, duplicate argument) must yield Err with a non-empty message, never Ok and never a panic. (b) valid scenario descriptions (senders with counts 1..5 -> capture by count or by message, sender -> forward -> capture (the forwarder's remote port differing from its local port in two runs of three), ping_pong pair (each side on its own port likewise), several captures sharing a factory; receivers addressed by machine name, by address or a mix of both; the port written in decimal or hexadecimal independently on the sending and the receiving side; the spare network attached per machine; optional ARP protocol; auto-protocol on no, every or some machines, an auto-protocol machine leaving out IPv4 and/or ARP from its list; extra unused networks) are run with generate_and_run_sim on the paused clock: the result must be Some(Exited), and the process-wide H4 hook must have seen every described message as a UDP frame to the described address and port. Non-trivial = (a) tree with >=2 networks, >=3 machines and >=1 argument value containing a space or '='; (b) every run; distinct by text hash.",
    assumptions: &[
        "well-formed argument values exclude ' \\ ] CR and runs of four spaces: the grammar cannot carry them (lexical 4-space->tab and CR removal happen before tokenising); they are used in C14 only",
        "captures are generated with counts/messages equal to what the described senders send, so the normal exit status implies they saw it; the frame log is checked independently",
    ],
    may_exit_process: true,
    watchdog_s: 300,
    nt_floor: |t| t.pick(100, 2000),
};

fn rand_value(rng: &mut impl Rng) -> String {
    let n = *rng.pick(&[0usize, 1, 3, 8, 20]);
    let mut s = String::new();
    for _ in 0..n {
        let c = loop {
            let c = rng.gen_range(0x20u8..0x7f) as char;
            if c != '\'' && c != '\\' && c != ']' {
                break c;
            }
        };
        s.push(c);
    }
    while s.contains("    ") {
        s = s.replace("    ", " x ");
    }
    s
}

fn rand_key(rng: &mut impl Rng) -> String {
    let keys = ["name", "id", "ip", "range", "port", "to", "message", "count", "type", "factory", "local_port", "remote_port", "starter", "auto-protocol", "x", "some_key", "k2"];
    rng.pick(&keys).to_string()
}

fn rand_params(rng: &mut impl Rng, must: &[&str]) -> Params {
    let mut p = Params::new();
    for m in must {
        p.insert(m.to_string(), rand_value(rng).replace(' ', "_"));
    }
    for _ in 0..rng.gen_range(0..=4) {
        p.entry(rand_key(rng)).or_insert_with(|| rand_value(rng));
    }
    p
}

fn gen_tree(rng: &mut impl Rng) -> (Vec<Vec<(String, PNetwork)>>, Vec<PMachine>) {
    // networks grouped by top-level section; ids unique overall
    let n_sections = rng.gen_range(1..=3);
    let mut sections = vec![];
    let mut used = vec![];
    for _ in 0..n_sections {
        let mut nets = vec![];
        for _ in 0..rng.gen_range(1..=4) {
            let mut opts = rand_params(rng, &[]);
            let mut id = format!("{}", rng.gen_range(0..50));
            while used.contains(&id) {
                id = format!("{id}x");
            }
            used.push(id.clone());
            opts.insert("id".into(), id.clone());
            let ips = (0..rng.gen_range(1..=4)).map(|_| IP { dectype: DecType::IP, options: rand_params(rng, &[]) }).collect();
            nets.push((id, PNetwork { dectype: DecType::Network, options: opts, ip: ips }));
        }
        sections.push(nets);
    }
    let mut machines = vec![];
    for _ in 0..rng.gen_range(1..=6) {
        let networks = (0..rng.gen_range(1..=3)).map(|_| MachineNetwork { dectype: DecType::Network, options: rand_params(rng, &[]) }).collect();
        let protocols = (0..rng.gen_range(1..=4)).map(|_| PProtocol { dectype: DecType::Protocol, options: rand_params(rng, &[]) }).collect();
        let applications = (0..rng.gen_range(1..=4)).map(|_| Application { dectype: DecType::Application, options: rand_params(rng, &[]) }).collect();
        machines.push(PMachine { dectype: DecType::Machine, options: Some(rand_params(rng, &[])), interfaces: Interfaces { networks, protocols, applications } });
    }
    (sections, machines)
}

fn args(p: &Params, rng: &mut impl Rng) -> String {
    let mut keys: Vec<&String> = p.keys().collect();
    keys.sort();
    keys.shuffle(rng);
    keys.iter().map(|k| format!(" {}='{}'", k, p[*k])).collect()
}

#[derive(Clone, Copy, PartialEq, Eq, Debug)]
enum Style {
    Tabs,
    Spaces,
    Crlf,
}

/// Lines as (depth, text); the final text is assembled by `assemble`.
fn render_lines(sections: &[Vec<(String, PNetwork)>], machines: &[PMachine], rng: &mut impl Rng) -> Vec<(usize, String)> {
    let mut lines: Vec<(usize, String)> = vec![];
    if rng.chance(1, 4) {
        lines.push((0, format!("[Template{}]", args(&rand_params(rng, &[]), rng))));
    }
    let machines_first = rng.chance(1, 4);
    let mut net_lines = vec![];
    for sec in sections {
        net_lines.push((0, "[Networks]".to_string()));
        for (_, n) in sec {
            net_lines.push((1, format!("[Network{}]", args(&n.options, rng))));
            for i in &n.ip {
                net_lines.push((2, format!("[IP{}]", args(&i.options, rng))));
            }
        }
    }
    let mut m_lines = vec![(0, "[Machines]".to_string())];
    for m in machines {
        m_lines.push((1, format!("[Machine{}]", args(m.options.as_ref().unwrap(), rng))));
        let mut order = [0, 1, 2];
        order.shuffle(rng);
        for o in order {
            match o {
                0 => {
                    m_lines.push((2, "[Networks]".into()));
                    for n in &m.interfaces.networks {
                        m_lines.push((3, format!("[Network{}]", args(&n.options, rng))));
                    }
                }
                1 => {
                    m_lines.push((2, "[Protocols]".into()));
                    for p in &m.interfaces.protocols {
                        m_lines.push((3, format!("[Protocol{}]", args(&p.options, rng))));
                    }
                }
                _ => {
                    m_lines.push((2, "[Applications]".into()));
                    for a in &m.interfaces.applications {
                        m_lines.push((3, format!("[Application{}]", args(&a.options, rng))));
                    }
                }
            }
        }
    }
    if machines_first {
        lines.extend(m_lines);
        lines.extend(net_lines);
    } else {
        lines.extend(net_lines);
        lines.extend(m_lines);
    }
    lines
}

fn assemble(lines: &[(usize, String)], style: Style, trailing_newline: bool) -> String {
    let nl = if style == Style::Crlf { "\r\n" } else { "\n" };
    let mut s = String::new();
    for (i, (depth, text)) in lines.iter().enumerate() {
        for _ in 0..*depth {
            s.push_str(if style == Style::Spaces { "    " } else { "\t" });
        }
        s.push_str(text);
        if i + 1 < lines.len() || trailing_newline {
            s.push_str(nl);
        }
    }
    s
}

fn expected_sim(sections: &[Vec<(String, PNetwork)>], machines: &[PMachine]) -> Sim {
    let mut networks = HashMap::new();
    for sec in sections {
        for (id, n) in sec {
            networks.insert(id.clone(), n.clone());
        }
    }
    Sim { networks, machines: machines.to_vec() }
}

fn parse_text(text: &str, tag: &str) -> Result<Result<Sim, String>, String> {
    let path = scratch_file(tag);
    std::fs::write(&path, text).map_err(|e| format!("scratch write: {e}"))?;
    let p = path.to_string_lossy().to_string();
    let r = catch(|| elvis::ndl::core_parser(p));
    let _ = std::fs::remove_file(&path);
    r
}

fn roundtrip_case(d: &mut Delta, rng: &mut impl Rng, sample: bool) {
    d.evaluations += 1;
    let (sections, machines) = gen_tree(rng);
    let lines = render_lines(&sections, &machines, rng);
    let style = *rng.pick(&[Style::Tabs, Style::Spaces, Style::Crlf]);
    let text = assemble(&lines, style, rng.chance(1, 2));
    let want = expected_sim(&sections, &machines);
    match parse_text(&text, "c19a") {
        Err(e) => {
            let (msg, loc) = split_panic(&e);
            d.violation(format!("panic:{loc}"), format!("core_parser panicked on a well-formed description: {}", msg.chars().take(200).collect::<String>()), json!({"text": text, "style": format!("{style:?}")}));
            return;
        }
        Ok(Err(msg)) => {
            d.violation("well-formed-description-rejected", format!("core_parser rejected a well-formed description: {}", msg.chars().take(300).collect::<String>()), json!({"text": text, "style": format!("{style:?}")}));
            return;
        }
        Ok(Ok(sim)) => {
            if sim != want {
                let what = if sim.networks != want.networks { "networks" } else { "machines" };
                d.violation(format!("parsed-structure-differs:{what}"), format!("parse(render(tree)) differs from tree in its {what}"), json!({"text": text, "style": format!("{style:?}"), "parsed": format!("{sim:?}").chars().take(1500).collect::<String>()}));
                return;
            }
        }
    }
    let interesting = sections.iter().map(|s| s.len()).sum::<usize>() >= 2 && machines.len() >= 3 && text.contains("='") && machines.iter().any(|m| m.interfaces.applications.iter().any(|a| a.options.values().any(|v| v.contains(' ') || v.contains('='))));
    if interesting {
        d.nontrivial(crate::fnv_str(&text));
    }
    d.tally("roundtrips", 1);
    if sample {
        d.sample(json!({"kind": "roundtrip", "style": format!("{style:?}"), "text": text.chars().take(700).collect::<String>()}));
    }

    // structurally broken variants of the same tree
    let kind = rng.gen_range(0..6);
    let mut broken = lines.clone();
    let name = match kind {
        0 => {
            // one line two levels deeper than the line before it
            let i = rng.gen_range(1..broken.len());
            broken[i].0 = broken[i - 1].0 + 2;
            "line-too-deep"
        }
        1 => {
            let i = rng.gen_range(0..broken.len());
            let kw = *rng.pick(&["Foo", "Netwerk", "Apps", ""]);
            let rest = broken[i].1.find(|c: char| c == ' ' || c == ']').unwrap_or(1);
            broken[i].1 = format!("[{kw}{}", &broken[i].1[rest..]);
            "unknown-section-keyword"
        }
        2 => {
            // drop one required machine section (header line and its children)
            let heads: Vec<usize> = broken.iter().enumerate().filter(|(_, l)| l.0 == 2 && (l.1 == "[Protocols]" || l.1 == "[Applications]" || l.1 == "[Networks]")).map(|(i, _)| i).collect();
            let h = *rng.pick(&heads);
            let mut end = h + 1;
            while end < broken.len() && broken[end].0 > 2 {
                end += 1;
            }
            broken.drain(h..end);
            "required-section-missing"
        }
        3 => {
            // duplicate network id: repeat the first network of the first section at the end of a Networks section
            let first_net: Vec<(usize, String)> = {
                let s = broken.iter().position(|l| l.0 == 1 && l.1.starts_with("[Network")).unwrap();
                let mut e = s + 1;
                while e < broken.len() && broken[e].0 == 2 {
                    e += 1;
                }
                broken[s..e].to_vec()
            };
            let ins = {
                let s = broken.iter().position(|l| l.0 == 1 && l.1.starts_with("[Network")).unwrap();
                let mut e = s + 1;
                while e < broken.len() && broken[e].0 >= 1 && !(broken[e].0 == 0) {
                    e += 1;
                }
                e
            };
            for (j, l) in first_net.into_iter().enumerate() {
                broken.insert(ins + j, l);
            }
            "duplicate-network-id"
        }
        4 => {
            // duplicate argument on a line that has one
            let with_args: Vec<usize> = broken.iter().enumerate().filter(|(_, l)| l.1.contains("='")).map(|(i, _)| i).collect();
            if with_args.is_empty() {
                return;
            }
            let i = *rng.pick(&with_args);
            let t = broken[i].1.clone();
            let start = t.find(' ').unwrap();
            let key_end = t[start + 1..].find('=').unwrap() + start + 1;
            let key = t[start + 1..key_end].to_string();
            broken[i].1 = format!("{} {}='dup']", &t[..t.len() - 1], key);
            "duplicate-argument"
        }
        _ => {
            // a Machine line at top level (wrong nesting, too shallow)
            let ms: Vec<usize> = broken.iter().enumerate().filter(|(_, l)| l.0 == 1 && l.1.starts_with("[Machine")).map(|(i, _)| i).collect();
            let i = *rng.pick(&ms);
            broken[i].0 = 0;
            "line-too-shallow"
        }
    };
    d.evaluations += 1;
    let btext = assemble(&broken, style, true);
    match parse_text(&btext, "c19b") {
        Err(e) => {
            let (msg, loc) = split_panic(&e);
            d.violation(format!("panic:{loc}"), format!("core_parser panicked on a structurally broken description ({name}): {}", msg.chars().take(200).collect::<String>()), json!({"text": btext, "break": name}));
        }
        Ok(Ok(_)) => {
            d.violation(format!("broken-description-accepted:{name}"), format!("a description with a structural error ({name}) was accepted"), json!({"text": btext, "break": name}));
        }
        Ok(Err(msg)) => {
            if msg.trim().is_empty() {
                d.violation("empty-error-message", format!("a broken description ({name}) was rejected with an empty message"), json!({"text": btext}));
            }
            d.tally("broken_rejected", 1);
            d.saw("break_kinds_rejected", name.to_string());
        }
    }
}

// ------------------------------------------------------------------ (b) running valid descriptions

struct Expect {
    /// (destination address, port, payload) that must be seen on the wire at least `times` times
    frames: Vec<([u8; 4], u16, Vec<u8>, usize)>,
}

fn gen_valid(rng: &mut impl Rng) -> (String, Expect, Value) {
    let template = rng.gen_range(0..5);
    // auto-protocol on no machine, on every machine, or on some (it adds IPv4 and ARP where they are not
    // listed, so then every other machine has to list ARP itself or nobody could resolve anybody)
    let auto_mode = *rng.pick(&[0u8, 0, 1, 2, 2]);
    let arp = rng.chance(1, 3) || auto_mode != 0;
    let auto_name = match auto_mode { 0 => "none", 1 => "all machines", _ => "some machines" };
    // receivers addressed by name, by address, or differently from one reference to the next
    let by_name_mode = rng.gen_range(0..3u8);
    let extra_net = rng.chance(1, 2);
    // the same port written in decimal or hexadecimal, independently on the sending and the receiving side
    let port_mode = rng.gen_range(0..4u8);
    let port: u16 = if rng.chance(1, 4) { *rng.pick(&[1u16, 9, 10, 255, 256, 0x7fff, 0x8000, 65534, 65535]) } else { rng.gen_range(1..=65535) };
    let by_name_name = match by_name_mode { 0 => "never", 1 => "always", _ => "per reference" };
    // a second port, for applications that listen on one port and talk to another
    let port2: u16 = loop {
        let p2: u16 = rng.gen_range(1..=65535);
        if p2 != port {
            break p2;
        }
    };
    let two_ports = rng.chance(2, 3);
    let (q, q_s, q_r) = if two_ports { (port2, format!("{port2}"), format!("0x{port2:x}")) } else { (port, format!("{port}"), format!("0x{port:x}")) };
    let port_s = if port_mode & 1 == 1 { format!("0x{port:x}") } else { format!("{port}") };
    let port_r = if port_mode & 2 == 2 { format!("0x{port:x}") } else { format!("{port}") };
    let by_name = |rng: &mut dyn rand::RngCore| match by_name_mode {
        0 => false,
        1 => true,
        _ => rng.gen::<bool>(),
    };
    // first octet outside everything IpGenerator::block_reserved_ips treats as reserved
    let b = rng.gen_range(11..=99u8);
    let a3 = rng.gen_range(0..=255u8);
    let a2 = *rng.pick(&[0u8, 1, 7, 254, 255]);
    // the ten addresses the templates draw from sit anywhere in the last octet, the ends of it included
    let lo: u8 = if rng.chance(1, 2) { *rng.pick(&[0u8, 1, 10, 118, 119, 245, 246]) } else { rng.gen_range(0..=246) };
    let used = std::cell::RefCell::new(std::collections::BTreeSet::<u8>::new());
    let ipn = |k: u8| {
        used.borrow_mut().insert(lo + k);
        format!("{b}.{a3}.{a2}.{}", lo + k)
    };
    let ipb = |k: u8| [b, a3, a2, lo + k];
    let msg: String = (0..rng.gen_range(1..=30)).map(|_| *rng.pick(&['a', 'b', 'Z', '0', ' ', '!', '=', '-', '.', ','])).collect::<String>().trim().replace("  ", " _") + "m";
    // network ids are arbitrary words; the network the applications talk over is the first one a machine lists
    let mut ids = vec!["main", "1", "0", "net-a", "LAN", "42", "spare", "x y"];
    ids.shuffle(rng);
    let live = ids[0].to_string();
    let spare = ids[1].to_string();
    let protos = |auto_m: bool, rng: &mut dyn rand::RngCore| -> String {
        let mut v = vec!["\t\t\t[Protocol name='UDP']".to_string()];
        // a machine with auto-protocol may leave out either or both of the protocols that option supplies
        if !auto_m || rng.gen::<bool>() {
            v.push("\t\t\t[Protocol name='IPv4']".to_string());
        }
        if arp && (!auto_m || rng.gen::<bool>()) {
            v.push("\t\t\t[Protocol name='ARP']".to_string());
        }
        if rng.gen::<bool>() {
            v.reverse();
        }
        v.join("\n")
    };
    let nets_of = |rng: &mut dyn rand::RngCore| if extra_net && rng.gen::<bool>() { format!("\t\t\t[Network id='{live}']\n\t\t\t[Network id='{spare}']") } else { format!("\t\t\t[Network id='{live}']") };
    // machine names are arbitrary words: in one run in three they are drawn from names that look like numbers or
    // like pieces of an address (a by-name reference must still find the machine, not be taken for an address)
    let odd_names = rng.gen_range(0..3) == 0;
    let mut pool = vec!["7", "42", "2.1", "10.0.1", "0", "255", "1.2.3", "1a", "a.b", "x-1", "3.x", "0x10", "1.2.3.4.5", "999", "1.256"];
    pool.shuffle(rng);
    let names = std::cell::RefCell::new((std::collections::HashMap::<String, String>::new(), pool));
    let nm = |base: &str| -> String {
        if !odd_names {
            return base.to_string();
        }
        let mut g = names.borrow_mut();
        if let Some(n) = g.0.get(base) {
            return n.clone();
        }
        let n = g.1.pop().map(|x| x.to_string()).unwrap_or_else(|| base.to_string());
        g.0.insert(base.to_string(), n.clone());
        n
    };
    let mut text = String::new();
    text.push_str("[Machines]\n");
    let mut expect = Expect { frames: vec![] };
    let machine = |name: &str, opts: &str, apps: &str, rng: &mut dyn rand::RngCore| -> String {
        let auto_m = match auto_mode {
            0 => false,
            1 => true,
            _ => rng.gen::<bool>(),
        };
        let mopts = if auto_m { " auto-protocol='true'" } else if rng.gen_range(0..6) == 0 { " auto-protocol='false'" } else { "" };
        // the three sections of a machine in any order
        let mut secs = vec![format!("\t\t[Networks]\n{}\n", nets_of(rng)), format!("\t\t[Protocols]\n{}\n", protos(auto_m, rng)), format!("\t\t[Applications]\n{}\n", apps)];
        if rng.gen_range(0..3) == 0 {
            let i = (rng.next_u32() % 3) as usize;
            secs.swap(0, i);
            let j = (rng.next_u32() % 3) as usize;
            secs.swap(1, j);
        }
        // name and the other options in either order
        let name = nm(name);
        if rng.gen::<bool>() { format!("\t[Machine name='{name}'{opts}{mopts}]\n{}", secs.concat()) } else { format!("\t[Machine{opts}{mopts} name='{name}']\n{}", secs.concat()) }
    };
    // a sender may name its own address (taken from the network's pool) instead of using the default
    let sender_ip = |k: u8, count: usize, rng: &mut dyn rand::RngCore| -> String { if count == 1 && rng.next_u32() % 3 == 0 { format!(" ip='{}'", ipn(k)) } else { String::new() } };
    let desc;
    match template {
        0 => {
            // k sender groups with counts -> one capture by count
            let groups = rng.gen_range(1..=3usize);
            let mut total = 0;
            for g in 0..groups {
                let count = rng.gen_range(1..=5usize);
                total += count;
                let to = if by_name(rng) { nm("cap") } else { ipn(0) };
                // count='1' may be written or left out
                let copt = if count > 1 || rng.gen::<bool>() { format!(" count='{count}'") } else { String::new() };
                let sip = sender_ip(7 + g as u8, count, rng);
                text.push_str(&machine(&format!("snd{g}"), &copt, &format!("\t\t\t[Application name='send_message' message='{msg}' to='{to}' port='{port_s}'{sip}]"), rng));
            }
            // a capture that waits for one message may say so or rely on the default
            let how = if total == 1 && rng.gen::<bool>() { String::new() } else { format!(" type='count' message_count='{total}'") };
            text.push_str(&machine("cap", "", &format!("\t\t\t[Application name='capture'{how} ip='{}' port='{port_r}']", ipn(0)), rng));
            expect.frames.push((ipb(0), port, msg.clone().into_bytes(), total));
            desc = json!({"template": "senders->capture(count)", "groups": groups, "total_messages": total, "capture_args": how});
        }
        1 => {
            let to = if by_name(rng) { nm("fwd") } else { ipn(1) };
            let to2 = if by_name(rng) { nm("cap") } else { ipn(2) };
            let sip = sender_ip(7, 1, rng);
            text.push_str(&machine("snd", "", &format!("\t\t\t[Application name='send_message' message='{msg}' to='{to}' port='{port_s}'{sip}]"), rng));
            text.push_str(&machine("fwd", "", &format!("\t\t\t[Application name='forward' ip='{}' to='{to2}' local_port='{port_r}' remote_port='{q_s}']", ipn(1)), rng));
            text.push_str(&machine("cap", "", &format!("\t\t\t[Application name='capture' type='message' ip='{}' port='{q_r}' message='{msg}']", ipn(2)), rng));
            expect.frames.push((ipb(1), port, msg.clone().into_bytes(), 1));
            expect.frames.push((ipb(2), q, msg.clone().into_bytes(), 1));
            desc = json!({"template": "sender->forward->capture(message)"});
        }
        2 => {
            let (to1, to2) = if by_name(rng) { (nm("pong"), nm("ping")) } else { (ipn(4), ipn(3)) };
            let yes = *rng.pick(&["true", "true", "t", "T", "True", "TRUE"]);
            let no = *rng.pick(&["false", "false", "f", "F", "False", "no"]);
            text.push_str(&machine("ping", "", &format!("\t\t\t[Application name='ping_pong' starter='{yes}' ip='{}' to='{to1}' local_port='{port_r}' remote_port='{q_s}']", ipn(3)), rng));
            text.push_str(&machine("pong", "", &format!("\t\t\t[Application name='ping_pong' starter='{no}' ip='{}' to='{to2}' local_port='{q_r}' remote_port='{port_s}']", ipn(4)), rng));
            expect.frames.push((ipb(4), q, vec![255], 1));
            expect.frames.push((ipb(3), port, vec![254], 1));
            expect.frames.push((ipb(3), port, vec![2], 1));
            desc = json!({"template": "ping_pong", "starter": [yes, no]});
        }
        3 => {
            // two captures sharing a factory, each with its own senders
            let c1 = rng.gen_range(1..=4usize);
            let c2 = rng.gen_range(1..=4usize);
            let (t1, t2) = if by_name(rng) { (nm("capA"), nm("capB")) } else { (ipn(5), ipn(6)) };
            let fac = *rng.pick(&["f1", "0", "shared factory"]);
            text.push_str(&machine("sA", &format!(" count='{c1}'"), &format!("\t\t\t[Application name='send_message' message='{msg}' to='{t1}' port='{port_s}']"), rng));
            text.push_str(&machine("sB", &format!(" count='{c2}'"), &format!("\t\t\t[Application name='send_message' message='{msg}' to='{t2}' port='{port_s}']"), rng));
            text.push_str(&machine("capA", "", &format!("\t\t\t[Application name='capture' type='count' ip='{}' factory='{fac}' port='{port_r}' message_count='{c1}']", ipn(5)), rng));
            text.push_str(&machine("capB", "", &format!("\t\t\t[Application name='capture' type='count' ip='{}' factory='{fac}' port='{port_r}' message_count='{c2}']", ipn(6)), rng));
            expect.frames.push((ipb(5), port, msg.clone().into_bytes(), c1));
            expect.frames.push((ipb(6), port, msg.clone().into_bytes(), c2));
            desc = json!({"template": "two captures sharing a factory", "counts": [c1, c2]});
        }
        _ => {
            // two machines that each send to the other and capture what the other sends (several applications on
            // one machine; the captures share a factory so that the run ends when both have what they wait for).
            // The capture is listed last, so that the machine's name stands for the capture's address.
            let msg2 = format!("{msg}2");
            let (tl, tr) = if by_name(rng) { (nm("left"), nm("right")) } else { (ipn(5), ipn(6)) };
            let s1 = sender_ip(7, 1, rng);
            let s2 = sender_ip(8, 1, rng);
            text.push_str(&machine("left", "", &format!("\t\t\t[Application name='send_message' message='{msg}' to='{tr}' port='{port_s}'{s1}]\n\t\t\t[Application name='capture' type='message' message='{msg2}' ip='{}' factory='both' port='{q_r}']", ipn(5)), rng));
            text.push_str(&machine("right", "", &format!("\t\t\t[Application name='send_message' message='{msg2}' to='{tl}' port='{q_s}'{s2}]\n\t\t\t[Application name='capture' type='message' message='{msg}' ip='{}' factory='both' port='{port_r}']", ipn(6)), rng));
            expect.frames.push((ipb(6), port, msg.clone().into_bytes(), 1));
            expect.frames.push((ipb(5), q, msg2.clone().into_bytes(), 1));
            desc = json!({"template": "two machines, each sending to and capturing from the other"});
        }
    }
    // the live network's address entries: any mixture of single addresses and ranges that covers what the
    // applications use - often exactly, so that the first and the last address of a range are in use
    let used: Vec<u8> = used.borrow().iter().copied().collect();
    let (umin, umax) = (used[0], *used.last().unwrap());
    let mut entries: Vec<String> = vec![];
    let entry_mode = rng.gen_range(0..4);
    match entry_mode {
        0 => {
            // one range, tight or generous at either end
            let s = if rng.gen::<bool>() { umin } else { umin.saturating_sub(rng.gen_range(0..=9)) };
            let e = if rng.gen::<bool>() { umax } else if rng.gen_range(0..4) == 0 { 255 } else { umax.saturating_add(rng.gen_range(0..=20)) };
            entries.push(format!("[IP range='{b}.{a3}.{a2}.{s}-{e}']"));
        }
        1 => {
            // every address on its own
            for u in &used {
                entries.push(if rng.gen_range(0..4) == 0 { format!("[IP range='{b}.{a3}.{a2}.{u}-{u}']") } else { format!("[IP ip='{b}.{a3}.{a2}.{u}']") });
            }
        }
        _ => {
            // consecutive pieces of umin..=umax, cut at random places
            let mut s = umin;
            loop {
                let e = if rng.gen_range(0..3) == 0 { umax } else { rng.gen_range(s..=umax) };
                entries.push(if s == e && rng.gen::<bool>() { format!("[IP ip='{b}.{a3}.{a2}.{s}']") } else { format!("[IP range='{b}.{a3}.{a2}.{s}-{e}']") });
                if e == umax {
                    break;
                }
                s = e + 1;
            }
        }
    }
    if rng.gen_range(0..4) == 0 {
        // an address of another prefix that nobody uses
        entries.push(format!("[IP ip='{}.{a3}.{a2}.{}']", b + 100, lo));
    }
    entries.shuffle(rng);
    let live_net = format!("\t[Network id='{live}']\n{}", entries.iter().map(|e| format!("\t\t{e}\n")).collect::<String>());
    let spare_net = format!("\t[Network id='{spare}']\n\t\t[IP ip='9.9.9.9']\n");
    let mut nets_text = String::new();
    if extra_net {
        match rng.gen_range(0..4) {
            0 => nets_text.push_str(&format!("[Networks]\n{live_net}{spare_net}")),
            1 => nets_text.push_str(&format!("[Networks]\n{spare_net}{live_net}")),
            2 => nets_text.push_str(&format!("[Networks]\n{live_net}[Networks]\n{spare_net}")),
            _ => nets_text.push_str(&format!("[Networks]\n{spare_net}[Networks]\n{live_net}")),
        }
    } else {
        nets_text.push_str(&format!("[Networks]\n{live_net}"));
    }
    let text = if rng.gen_range(0..5) == 0 { format!("{text}{nets_text}") } else { format!("{nets_text}{text}") };
    let style = rng.gen_range(0..3);
    let style_name = ["tabs", "spaces", "crlf"][style];
    let text = match style {
        0 => text,
        1 => text.replace('\t', "    "),
        _ => text.replace('\n', "\r\n"),
    };
    (text, expect, json!({"what": desc, "arp": arp, "auto_protocol": auto_name, "by_name": by_name_name, "extra_network": extra_net, "port": format!("{port_s} / {port_r}"), "style": style_name, "network_ids": [live, spare], "odd_machine_names": odd_names, "address_entries": entries}))
}

fn run_case(d: &mut Delta, rng: &mut rand::rngs::SmallRng, sample: bool) {
    d.evaluations += 1;
    let (text, expect, desc) = gen_valid(rng);
    let path = scratch_file("c19run");
    if std::fs::write(&path, &text).is_err() {
        d.inconclusive += 1;
        return;
    }
    let p = path.to_string_lossy().to_string();
    crate::set_context(&json!({"description": text, "generated_as": desc}));
    let (status, frames, elapsed) = run_paused(async move {
        let rec = Recorder::passive();
        set_default_verif_hook(Some(rec.clone()));
        let t0 = tokio::time::Instant::now();
        let status = elvis::ndl::generate_and_run_sim(p, Some(Duration::from_secs(5))).await;
        let el = tokio::time::Instant::now().duration_since(t0);
        set_default_verif_hook(None);
        (status, rec.snapshot(), el)
    });
    let _ = std::fs::remove_file(&path);
    let witness = |extra: Value| json!({"description": text, "generated_as": desc, "returned": format!("{status:?}"), "simulated_elapsed": format!("{elapsed:?}"), "detail": extra});
    match &status {
        Some(ExitStatus::Exited) => {}
        Some(ExitStatus::TimedOut) => {
            d.violation("valid-description-timed-out", "a valid description ran into the timeout instead of ending with the normal exit status".to_string(), witness(json!({"frames_seen": frames.len()})));
            return;
        }
        other => {
            d.violation("valid-description-wrong-status", format!("generate_and_run_sim returned {other:?}"), witness(json!({})));
            return;
        }
    }
    for (addr, port, payload, times) in &expect.frames {
        let n = frames
            .iter()
            .filter(|f| f.kind == Kind::Ipv4 && f.bytes.len() >= 28)
            .filter(|f| match Ipv4Header::from_bytes(f.bytes.iter().cloned()) {
                Ok(h) => h.destination.to_bytes() == *addr && h.protocol == 17 && u16::from_be_bytes([f.bytes[22], f.bytes[23]]) == *port && f.bytes[28..] == payload[..],
                Err(_) => false,
            })
            .count();
        if n < *times {
            d.violation(
                "described-message-not-on-the-wire",
                format!("the description says {times} message(s) {:?} go to {}.{}.{}.{}:{port}; the frame hook saw {n}", String::from_utf8_lossy(payload), addr[0], addr[1], addr[2], addr[3]),
                witness(json!({"udp_frames": frames.iter().filter(|f| f.kind == Kind::Ipv4).count()})),
            );
            return;
        }
    }
    d.tally("descriptions_run", 1);
    d.tally("frames_seen", frames.len() as u64);
    d.nontrivial(crate::fnv_str(&text));
    if sample {
        d.sample(json!({"kind": "run", "generated_as": desc, "text": text, "returned": format!("{status:?}"), "frames": frames.len()}));
    }
}

fn run(env: &Env, k: u64, d: &mut Delta) {
    let mut rng = scenario_rng("C19", env.seed, k);
    if k % 3 == 2 {
        for i in 0..env.tier.pick(8, 16) {
            run_case(d, &mut rng, i == 0 && k < 6);
        }
    } else {
        for i in 0..env.tier.pick(70, 280) {
            roundtrip_case(d, &mut rng, i == 0 && k < 2);
        }
    }
}
