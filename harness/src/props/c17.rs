//! C17 — a TCP endpoint withstands arbitrary segments from its peer address.

use crate::props::c01::{check_prefix, describe, pick_isn, side_name};
use crate::tcbsim::*;
use crate::{catch, scenario_rng, split_panic, Delta, Env, PropDef, RngExt};
use elvis_core::{
    protocols::tcp::{
        verif::{segment_arrives_closed, segment_arrives_listen, Segment, State, TcbSnapshot, TcpControl},
        TcpHeader,
    },
    Message,
};
use rand::Rng;
use serde_json::{json, Value};

pub static DEF: PropDef = PropDef {
    id: "C17",
    level: "exploration",
    total: |t| t.pick(384, 11200),
    run,
    rule: "a real TCB pair is driven to a random point (handshake in progress, established with data queued/in flight, either side closing, all states reachable through the API), then 1..40 crafted segments are handed to the victim, interleaved with legitimate traffic: all 64 flag combinations x seq in {rcv.nxt-2..+2, right edge -2..+2, +-2^31, random} x ack in {snd.una-1.., snd.nxt+1, random} x wnd in {0,1,queued-1,65535,shrinking} x len in {0,1,MSS}. Oracles: no panic from any call; new data emitted by the victim stays within SND.UNA+SND.WND of the snapshot before segments() and within the furthest right edge any delivered segment advertised; a segment that RFC 9293 table 6 makes unacceptable (by the harness's arithmetic), or one without SYN/RST in SYN-SENT, changes neither the victim's state nor the bytes delivered - immediately, and in mode U (only unacceptable injections) also not later: the legitimate stream must still converge intact. LISTEN/CLOSED handlers get the same segments (no panic). Non-trivial = distinct (victim state, flag set, seq class, ack class, wnd class, len class) tuple.",
    assumptions: &[
        "acceptability is RFC 9293 table 6 evaluated by the harness on the victim's observed RCV.NXT/RCV.WND at the moment of arrival",
        "acknowledgment bookkeeping (SND.UNA) and emitted ACK/RST replies to unacceptable segments are not judged",
    ],
    may_exit_process: false,
    watchdog_s: 600,
    nt_floor: |t| t.pick(300, 3000),
};

fn make_seg(src: u16, dst: u16, flags: u8, seq: u32, ack: u32, wnd: u16, urg: u16, len: usize, fill: u8) -> Segment {
    let header = TcpHeader {
        src_port: src,
        dst_port: dst,
        seq,
        ack,
        data_offset: 5,
        ctl: TcpControl::from(flags & 0x3f),
        wnd,
        urg,
        checksum: 0,
    };
    Segment::new(header, Message::new(vec![fill; len]))
}

/// RFC 9293 table 6
fn acceptable(sn: &TcbSnapshot, seq: u32, seg_len: u32) -> bool {
    let nxt = sn.rcv_nxt;
    let wnd = sn.rcv_wnd as u32;
    let inside = |x: u32| x.wrapping_sub(nxt) < wnd;
    match (seg_len, wnd) {
        (0, 0) => seq == nxt,
        (0, _) => inside(seq),
        (_, 0) => false,
        (_, _) => inside(seq) || inside(seq.wrapping_add(seg_len - 1)),
    }
}

struct Inj {
    flags: u8,
    seq: u32,
    ack: u32,
    wnd: u16,
    len: usize,
    seq_class: &'static str,
    ack_class: &'static str,
    wnd_class: &'static str,
}

fn gen_injection(rng: &mut impl Rng, sn: Option<&TcbSnapshot>, mss: usize, only_unacceptable: bool) -> Inj {
    let flags: u8 = if rng.chance(1, 2) { rng.gen_range(0..64) } else { *rng.pick(&[16u8, 16, 24, 17, 18, 2, 4, 20, 1, 0]) };
    let (rcv_nxt, rcv_wnd, una, nxt, queued) = match sn {
        Some(s) => (s.rcv_nxt, s.rcv_wnd as u32, s.snd_una, s.snd_nxt, s.retransmit_bytes),
        None => (rng.gen(), 65535, rng.gen(), rng.gen(), 0),
    };
    let len = *rng.pick(&[0usize, 0, 1, 1, mss, 7]);
    let (seq, seq_class) = if only_unacceptable {
        // entirely before the window or entirely beyond it
        match rng.gen_range(0..5) {
            0 => (rcv_nxt.wrapping_sub(len as u32 + (flags & 1) as u32 + ((flags >> 1) & 1) as u32).wrapping_sub(rng.gen_range(0..3)), "just-below"),
            1 => (rcv_nxt.wrapping_add(rcv_wnd).wrapping_add(rng.gen_range(0..3)), "just-above"),
            2 => (rcv_nxt.wrapping_add(1 << 31).wrapping_add(rng.gen_range(0..5)).wrapping_sub(2), "half-circle"),
            3 => (rcv_nxt.wrapping_sub(rng.gen_range(1..100000)).wrapping_sub(len as u32 + 2), "far-below"),
            _ => (rcv_nxt.wrapping_add(rcv_wnd).wrapping_add(rng.gen_range(0..1000000)), "far-above"),
        }
    } else {
        match rng.gen_range(0..7) {
            0 | 1 => (rcv_nxt.wrapping_add(rng.gen_range(0..5)).wrapping_sub(2), "around-rcv.nxt"),
            2 => (rcv_nxt.wrapping_add(rcv_wnd).wrapping_add(rng.gen_range(0..5)).wrapping_sub(2), "around-right-edge"),
            3 => (rcv_nxt.wrapping_add(1 << 31).wrapping_add(rng.gen_range(0..5)).wrapping_sub(2), "half-circle"),
            4 => (rcv_nxt, "exact"),
            5 => (rcv_nxt.wrapping_sub(len as u32), "ends-at-rcv.nxt"),
            _ => (rng.gen(), "random"),
        }
    };
    let (ack, ack_class) = match rng.gen_range(0..7) {
        0 => (una.wrapping_sub(1), "una-1"),
        1 => (una, "una"),
        2 => (una.wrapping_add(1), "una+1"),
        3 => (nxt, "nxt"),
        4 => (nxt.wrapping_add(1), "nxt+1"),
        5 => (nxt.wrapping_sub(1), "nxt-1"),
        _ => (rng.gen(), "random"),
    };
    let (wnd, wnd_class) = match rng.gen_range(0..6) {
        0 => (0u16, "zero"),
        1 => (1, "one"),
        2 => ((queued.saturating_sub(1)).min(65535) as u16, "queued-1"),
        3 => (65535, "max"),
        4 => ((queued / 2).min(65535) as u16, "half-queued"),
        _ => (rng.gen(), "random"),
    };
    Inj { flags, seq, ack, wnd, len, seq_class, ack_class, wnd_class }
}

fn witness(p: &Pair, log: &[String], params: &Value) -> Value {
    let n = log.len();
    json!({"params": params, "log_tail": log[n.saturating_sub(40)..].to_vec(), "endpoints": describe(p)})
}

fn drive_to_random_point(p: &mut Pair, rng: &mut impl Rng, log: &mut Vec<String>, mss: usize) {
    // handshake progress 0..all, then optional data and closes
    let rounds = rng.gen_range(0..4);
    for _ in 0..rounds {
        p.fair_round(*rng.pick(&[1u64, 101]), true);
    }
    for s in [A, B] {
        if rng.chance(1, 2) {
            let n = *rng.pick(&[1usize, mss, 3000, 70000, 200000]);
            if p.write(s, n) {
                log.push(format!("write{}:{n}", side_name(s)));
            }
        }
    }
    let rounds = rng.gen_range(0..3);
    for _ in 0..rounds {
        p.fair_round(*rng.pick(&[1u64, 101]), rng.chance(3, 4));
    }
    // partial progress: emit but deliver only some
    if rng.chance(1, 2) {
        p.pump(A);
        p.pump(B);
        let n = p.net.len();
        for _ in 0..n / 2 {
            p.deliver(0);
        }
    }
    for s in [A, B] {
        if rng.chance(1, 4) && p.close(s).is_some() {
            log.push(format!("close{}", side_name(s)));
            for _ in 0..rng.gen_range(0..3) {
                p.fair_round(*rng.pick(&[1u64, 101]), true);
            }
        }
    }
    p.obs.clear();
}

/// Victim output check. `right_edge_max` is the furthest SEG.ACK+SEG.WND any delivered segment advertised (relative to victim's ISS).
fn check_window(p: &mut Pair, victim: usize, right_edge_max: &mut Option<u32>, d: &mut Delta, log: &[String], params: &Value) -> bool {
    let before = match p.sides[victim].snap() {
        Some(s) => s,
        None => return true,
    };
    let prev_max_end = p.sides[victim].max_data_end;
    p.pump(victim);
    if let Some(e) = &p.panic {
        let (msg, loc) = split_panic(e);
        d.violation(format!("panic:{loc}"), format!("victim panicked while emitting segments: {msg}"), witness(p, log, params));
        return false;
    }
    if let Some(v) = p.window_rule_broken.take() {
        // the window the peer last advertised is what the bookkeeping rule makes of the segments that arrived
        let sig = if v.contains("outside SND.UNA") { "send-window:changed-by-ack-outside-una-nxt" } else { "send-window:not-what-the-peer-last-advertised" };
        d.violation(sig, format!("send window bookkeeping: {v}"), witness(p, log, params));
        return false;
    }
    let iss = p.sides[victim].iss;
    let obs: Vec<CallObs> = p.obs.drain(..).collect();
    for o in obs.iter().filter(|o| o.kind == CallKind::Segments && o.side == victim) {
        for (seq, _ack, flags, len, _wnd) in &o.emitted {
            if *len == 0 || flags & 2 != 0 {
                continue;
            }
            let end = seq.wrapping_add(*len as u32);
            let is_new = match prev_max_end {
                Some(m) => (end.wrapping_sub(m) as i32) > 0,
                None => true,
            };
            if !is_new {
                continue;
            }
            d.tally("new_data_segments_checked", 1);
            // snapshot rule
            // the window starts at SND.UNA; while our SYN is unacknowledged it starts behind the SYN
            let base = if before.snd_una == iss { iss.wrapping_add(1) } else { before.snd_una };
            let allowed = base.wrapping_add(before.snd_wnd as u32);
            if !seq_leq(end, allowed) {
                d.violation(
                    "send-beyond-window:snapshot",
                    format!(
                        "victim emitted new data up to sequence {} (relative {}) although SND.UNA+SND.WND = {} (relative {}) just before the call",
                        end,
                        end.wrapping_sub(iss),
                        allowed,
                        allowed.wrapping_sub(iss)
                    ),
                    witness(p, log, params),
                );
                return false;
            }
        }
    }
    true
}

fn note_advert(right_edge_max: &mut Option<u32>, iss: u32, flags: u8, ack: u32, wnd: u16, victim_state: Option<State>) {
    // a segment advertises right edge ack+wnd (with ACK), or, for a bare SYN, iss+1+wnd
    let edge = if flags & 16 != 0 {
        ack.wrapping_add(wnd as u32)
    } else if flags & 2 != 0 {
        iss.wrapping_add(1).wrapping_add(wnd as u32)
    } else {
        return;
    };
    let _ = victim_state;
    let rel = edge.wrapping_sub(iss);
    if rel >= (1 << 31) {
        return; // behind the ISS: cannot extend the window
    }
    match right_edge_max {
        Some(m) if m.wrapping_sub(iss) >= rel => {}
        _ => *right_edge_max = Some(edge),
    }
}

fn scenario(env: &Env, k: u64, case: u64, rng: &mut rand::rngs::SmallRng, d: &mut Delta) {
    d.evaluations += 1;
    let style = if rng.chance(3, 5) { OpenStyle::ActivePassive } else { OpenStyle::Simultaneous };
    let mtu = *rng.pick(&[100u16, 576, 1500, 9000]);
    let mss = mtu as usize - 50;
    let (ia, ib) = (pick_isn(rng), pick_isn(rng));
    let victim = rng.gen_range(0..2);
    let mode_u = rng.chance(1, 3);
    let params = json!({"open": format!("{style:?}"), "mtu": mtu, "iss": [ia, ib], "victim": side_name(victim), "mode": if mode_u {"U: only unacceptable injections, then convergence"} else {"X: arbitrary injections"}, "scenario": k, "case": case});
    let mut p = Pair::new(style, ia, ib, mtu);
    let mut log: Vec<String> = vec![];
    // track adverts from the very beginning: wrap deliver
    let mut right_edge_max: Option<u32> = None;
    drive_to_random_point(&mut p, rng, &mut log, mss);
    if let Some(e) = &p.panic {
        let (msg, loc) = split_panic(e);
        d.violation(format!("panic:{loc}"), format!("legitimate traffic panicked: {msg}"), witness(&p, &log, &params));
        return;
    }
    // everything the peer legitimately advertised so far is bounded by 65535 beyond what it acked; start from the victim's own view
    if let Some(sn) = p.sides[victim].snap() {
        right_edge_max = Some(sn.snd_una.wrapping_add(65535));
    }
    let n_inj = rng.gen_range(1..=40);
    // sequence numbers of injected segments whose last octet (or, zero-length, whose
    // sequence number) is exactly RCV.NXT-1 at the time of injection: the one-below-the-window class
    let mut one_below: Vec<u32> = vec![];
    let mut acceptable_data_injected = false;
    let allow_one_below = rng.chance(1, 4);
    for _ in 0..n_inj {
        if p.sides[victim].tcb.is_none() {
            break;
        }
        // legitimate traffic in between
        match rng.gen_range(0..6) {
            0 => {
                p.pump(1 - victim);
                p.obs.clear();
            }
            1 => {
                if !p.net.is_empty() {
                    let i = rng.gen_range(0..p.net.len());
                    let f = &p.net[i];
                    if f.to == victim {
                        let c = f.seg.header.ctl;
                        let fl = (c.fin() as u8) | (c.syn() as u8) << 1 | (c.rst() as u8) << 2 | (c.ack() as u8) << 4;
                        note_advert(&mut right_edge_max, p.sides[victim].iss, fl, f.seg.header.ack, f.seg.header.wnd, p.sides[victim].state());
                    }
                    p.deliver(i);
                    p.read(A);
                    p.read(B);
                    p.obs.clear();
                }
            }
            2 => {
                let s = rng.gen_range(0..2);
                p.tick(s, *rng.pick(&[1u64, 50, 101]));
                p.obs.clear();
            }
            3 => {
                if !mode_u && p.write(victim, *rng.pick(&[1usize, mss, 70000])) {
                    log.push("write-victim".into());
                }
                p.obs.clear();
            }
            _ => {}
        }
        if let Some(e) = &p.panic {
            let (msg, loc) = split_panic(e);
            d.violation(format!("panic:{loc}"), format!("TCB call panicked: {msg}"), witness(&p, &log, &params));
            return;
        }
        if p.sides[victim].tcb.is_none() {
            break;
        }
        p.read(victim);
        p.obs.clear();
        let before = p.sides[victim].snap().unwrap();
        let delivered_before = p.sides[victim].delivered.len();
        let mut inj = gen_injection(rng, Some(&before), mss, mode_u);
        if mode_u && before.state == State::SynSent {
            // RFC 9293 3.10.7.3: an unacceptable ACK in SYN-SENT is answered with a RST, which
            // legitimately resets a half-open peer; keep mode U free of that side effect
            inj.flags &= !16;
        }
        let mut seg_len = inj.len as u32 + (inj.flags & 1) as u32 + ((inj.flags >> 1) & 1) as u32;
        if !allow_one_below && before.state != State::SynSent {
            // keep three quarters of the scenarios free of the one-octet-below-the-window class
            let last = if seg_len == 0 { inj.seq } else { inj.seq.wrapping_add(seg_len - 1) };
            if last == before.rcv_nxt.wrapping_sub(1) {
                inj.seq = inj.seq.wrapping_sub(1);
            }
        }
        seg_len = inj.len as u32 + (inj.flags & 1) as u32 + ((inj.flags >> 1) & 1) as u32;
        let in_syn_sent = before.state == State::SynSent;
        let unacceptable = if in_syn_sent {
            inj.flags & 0b110 == 0 // neither SYN nor RST
        } else {
            !acceptable(&before, inj.seq, seg_len)
        };
        if mode_u && !unacceptable {
            continue;
        }
        let seg = make_seg(port(1 - victim), port(victim), inj.flags, inj.seq, inj.ack, inj.wnd, 0, inj.len, 0xEE);
        log.push(format!(
            "inject->{} [{}] seq=rcv.nxt{:+} ack=snd.una{:+} wnd={} len={} ({}; state {:?})",
            side_name(victim),
            flag_names(inj.flags),
            inj.seq.wrapping_sub(before.rcv_nxt) as i32,
            inj.ack.wrapping_sub(before.snd_una) as i32,
            inj.wnd,
            inj.len,
            if unacceptable { "UNACCEPTABLE" } else { "acceptable" },
            before.state
        ));
        d.nontrivial(crate::fnv_str(&format!("{:?}|{}|{}|{}|{}|{}", before.state, inj.flags, inj.seq_class, inj.ack_class, inj.wnd_class, inj.len.min(2))));
        d.tally("injections", 1);
        d.evaluations += 1;
        if unacceptable {
            d.tally("unacceptable_injections", 1);
        }
        if !unacceptable {
            note_advert(&mut right_edge_max, p.sides[victim].iss, inj.flags, inj.ack, inj.wnd, Some(before.state));
        } else {
            // even an unacceptable segment is "delivered": for the loose bound count its advert too
            note_advert(&mut right_edge_max, p.sides[victim].iss, inj.flags, inj.ack, inj.wnd, Some(before.state));
        }
        {
            let last = if seg_len == 0 { inj.seq } else { inj.seq.wrapping_add(seg_len - 1) };
            if last == before.rcv_nxt.wrapping_sub(1) {
                one_below.push(last);
            }
        }
        p.arrive(victim, seg);
        if env.verbose {
            println!("  case {case}: {}\n      -> {:?}", log.last().unwrap(), p.sides[victim].snap());
        }
        if let Some(e) = &p.panic {
            let (msg, loc) = split_panic(e);
            d.violation(format!("panic:{loc}"), format!("a crafted segment crashed the endpoint: {msg}"), witness(&p, &log, &params));
            return;
        }
        p.read(victim);
        p.obs.clear();
        let after_state = p.sides[victim].state();
        if inj.len > 0 && !unacceptable {
            acceptable_data_injected = true;
        }
        // in mode X an earlier acceptable injection may still wait in the victim's queue and take
        // effect during this call; the immediate verdict is only sound when nothing was queued
        let attributable = mode_u || before.heap_len == 0;
        if unacceptable && attributable {
            let released = p.sides[victim].tcb.is_none();
            if released || after_state != Some(before.state) {
                let kind = if in_syn_sent {
                    "syn-sent-nonsyn"
                } else if one_below.contains(&before.rcv_nxt.wrapping_sub(1)) {
                    // this or an earlier, possibly still queued, injected segment ends exactly one octet below the window
                    "ends-at-rcv.nxt-1"
                } else {
                    "other"
                };
                let sig = if kind == "ends-at-rcv.nxt-1" {
                    "unacceptable-segment-changed-state:ends-at-rcv.nxt-1".to_string()
                } else {
                    format!("unacceptable-segment-changed-state:{kind}:{:?}->{}", before.state, after_state.map(|s| format!("{s:?}")).unwrap_or("released".into()))
                };
                d.saw("state_changes_by_unacceptable_segments", format!("{kind}:{:?}->{}", before.state, after_state.map(|s| format!("{s:?}")).unwrap_or("released".into())));
                d.violation(
                    sig,
                    format!(
                        "a segment [{}] with seq = RCV.NXT{:+} len={} (RCV.WND={}) is unacceptable by RFC 9293 table 6 yet moved the victim from {:?} to {:?}",
                        flag_names(inj.flags),
                        inj.seq.wrapping_sub(before.rcv_nxt) as i32,
                        inj.len,
                        before.rcv_wnd,
                        before.state,
                        after_state
                    ),
                    witness(&p, &log, &params),
                );
                return;
            }
        }
        if p.sides[A].returned_to_listen + p.sides[B].returned_to_listen > 0 {
            // a reset sent an endpoint back to LISTEN: what it had written is gone by RFC, nothing left to compare
            d.tally("scenarios_ended_by_return_to_listen", 1);
            return;
        }
        // content, not timing: whatever the application has read must still be the peer's bytes
        if !acceptable_data_injected {
            if let Some((sig, what)) = check_prefix(&p) {
                d.violation(format!("unacceptable-segment-altered-stream:{sig}"), what, witness(&p, &log, &params));
                return;
            }
        }
        if p.sides[1 - victim].returned_to_listen > 0 || p.sides[1 - victim].released {
            d.tally("scenarios_ended_by_reset_of_the_peer", 1);
            return;
        }
        if !check_window(&mut p, victim, &mut right_edge_max, d, &log, &params) {
            return;
        }
    }
    let tol = if one_below.is_empty() { "" } else { ":ends-at-rcv.nxt-1" };
    if mode_u {
        // delayed effects: the legitimate conversation must still be intact and converge
        if let Some((sig, what)) = check_prefix(&p) {
            d.violation(format!("mode-U:{sig}{tol}"), what, witness(&p, &log, &params));
            return;
        }
        let closing = p.sides[A].close_called || p.sides[B].close_called;
        let mut ok = false;
        for _ in 0..60 {
            p.fair_round(101, true);
            if let Some(e) = &p.panic {
                let (msg, loc) = split_panic(e);
                d.violation(format!("panic:{loc}"), format!("panic after unacceptable injections: {msg}"), witness(&p, &log, &params));
                return;
            }
            p.obs.clear();
            if let Some((sig, what)) = check_prefix(&p) {
                d.violation(format!("mode-U:{sig}{tol}"), format!("after only unacceptable segments were injected: {what}"), witness(&p, &log, &params));
                return;
            }
            let all = [A, B].iter().all(|&s| {
                let want = if p.sides[1 - s].close_called { p.sides[1 - s].submitted_at_close } else { p.sides[1 - s].submitted.len() };
                p.sides[s].delivered.len() >= want || p.sides[s].tcb.is_none()
            });
            if all && p.net.is_empty() {
                ok = true;
                break;
            }
        }
        if !ok && !closing && p.sides[A].tcb.is_some() && p.sides[B].tcb.is_some() {
            let both_est = p.sides[A].state() == Some(State::Established) && p.sides[B].state() == Some(State::Established);
            d.violation(
                format!("{}{tol}", if both_est { "mode-U:no-convergence-after-unacceptable-injections" } else { "mode-U:handshake-stuck-after-unacceptable-injections" }),
                format!(
                    "only unacceptable segments were injected, yet the legitimate stream did not complete over a fair network: delivered A/B {}/{} of {}/{}",
                    p.sides[A].delivered.len(),
                    p.sides[B].delivered.len(),
                    p.sides[B].submitted.len(),
                    p.sides[A].submitted.len()
                ),
                witness(&p, &log, &params),
            );
            return;
        }
        d.tally("mode_u_converged", ok as u64);
    }
    if case == 0 && k < 2 {
        d.sample(json!({"params": params, "log": log.iter().take(30).collect::<Vec<_>>()}));
    }
    let _ = env;
}

fn listen_closed(d: &mut Delta, rng: &mut impl Rng) {
    for _ in 0..200 {
        d.evaluations += 1;
        let inj = gen_injection(rng, None, 1450, false);
        let seg = make_seg(1, 2, inj.flags, inj.seq, inj.ack, inj.wnd, rng.gen(), inj.len, 1);
        let h = seg.header;
        let mtu = *rng.pick(&[100u16, 1500, 65535]);
        let iss: u32 = rng.gen();
        let r = catch(|| {
            let a = segment_arrives_closed(h, inj.len as u32, addr(A), addr(B));
            let b = segment_arrives_listen(seg, addr(A), addr(B), iss, mtu);
            (a.is_some(), b.is_some())
        });
        d.nontrivial(crate::fnv_str(&format!("listen|{}|{}", inj.flags, inj.len.min(2))));
        match r {
            Ok((closed_reply, _)) => {
                if inj.flags & 4 != 0 && closed_reply {
                    d.violation("closed-answers-rst", "a RST arriving for a CLOSED connection was answered".to_string(), json!({"flags": inj.flags}));
                }
                d.tally("listen_closed_calls", 2);
            }
            Err(e) => {
                let (msg, loc) = split_panic(&e);
                d.violation(format!("panic:{loc}"), format!("LISTEN/CLOSED handler panicked on [{}]: {msg}", flag_names(inj.flags)), json!({"flags": inj.flags, "seq": inj.seq, "ack": inj.ack, "len": inj.len}));
            }
        }
    }
}

fn run(env: &Env, k: u64, d: &mut Delta) {
    let mut rng = scenario_rng("C17", env.seed, k);
    for case in 0..env.tier.pick3(150, 300, 2) {
        scenario(env, k, case, &mut rng, d);
    }
    listen_closed(d, &mut rng);
}
