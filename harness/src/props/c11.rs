//! C11 — IPv4 reassembly rebuilds exactly the datagrams that were fragmented.

use crate::{catch, scenario_rng, split_panic, Delta, Env, PropDef, RngExt};
use elvis_core::{
    protocols::ipv4::{ipv4_parsing::Ipv4Header, Ipv4Address, ReceivePacketResult, Reassembly},
    Message,
};
use rand::{seq::SliceRandom, Rng};
use serde_json::{json, Value};
use std::collections::HashMap;

pub static DEF: PropDef = PropDef {
    id: "C11",
    level: "exploration",
    total: |t| t.pick(576, 28800),
    run,
    rule: "1..5 datagrams (1..20000 random bytes, one in 13 larger, up to the largest legal datagram of 65515 payload octets; keys differing in exactly one of source/destination/protocol/identification, or equal and sent back to back) cut by the harness's own RFC 791 cutter through chains of 1..3 MTUs in 68..65535, fragments interleaved by random shuffle (all permutations when <= 5 fragments), 0..3 duplicated fragments, optionally pieces of a second, different cut of the same datagram (overlap), expiry callbacks with fresh or stale epochs at random positions; every receive_packet result is compared with a block-coverage model. Non-trivial = >=2 interleaved datagrams AND out-of-order arrival AND (duplicate or expiry callback); distinct by scenario hash.",
    assumptions: &[
        "fragments are produced by the harness's own cutter (so a defect in fragmentation.rs cannot mask or cause a reassembly verdict)",
        "completion is judged per RFC 791: all 8-octet blocks 0..ceil(TDL/8) received since the last completion/flush of that (src,dst,proto,id)",
    ],
    may_exit_process: false,
    watchdog_s: 300,
    nt_floor: |t| t.pick(200, 5000),
};

#[derive(Clone, Debug, PartialEq, Eq, Hash)]
struct Key {
    src: u32,
    dst: u32,
    proto: u8,
    id: u16,
}

#[derive(Clone)]
struct Frag {
    dgram: usize,
    header: Ipv4Header,
    bytes: Vec<u8>,
    offset_blocks: u16,
    last: bool,
    /// from the alternative cut of the same datagram
    alt: bool,
}

fn cut(payload_len: usize, mtus: &[usize]) -> Vec<(usize, usize)> {
    // returns (start, len) pieces
    let mut pieces = vec![(0usize, payload_len)];
    for &mtu in mtus {
        let block = ((mtu - 20) / 8) * 8;
        let mut next = vec![];
        for (s, l) in pieces {
            let mut s = s;
            let mut rest = l;
            while rest + 20 > mtu {
                next.push((s, block));
                s += block;
                rest -= block;
            }
            next.push((s, rest));
        }
        pieces = next;
    }
    pieces
}

/// Is `got` a concatenation of all `pieces` in non-decreasing offset order
/// (any order among equal offsets)? `pieces` is sorted by offset.
fn glued(got: &[u8], pieces: &[(u16, Vec<u8>)]) -> bool {
    if pieces.is_empty() {
        return got.is_empty();
    }
    let mo = pieces[0].0;
    let mut tried: Vec<&Vec<u8>> = vec![];
    for (i, p) in pieces.iter().enumerate() {
        if p.0 != mo {
            break;
        }
        if tried.contains(&&p.1) {
            continue;
        }
        tried.push(&p.1);
        if got.starts_with(&p.1) {
            let mut rest = pieces.to_vec();
            rest.remove(i);
            if glued(&got[p.1.len()..], &rest) {
                return true;
            }
        }
    }
    false
}

struct ModelBuf {
    blocks: Vec<bool>,
    tdl: Option<usize>,
    /// (offset_blocks, bytes) of everything received since last completion, arrival order
    arrivals: Vec<(u16, Vec<u8>)>,
    redundant_arrival: bool,
    latest_epoch_token: Option<usize>,
    incarnation: usize,
}

impl ModelBuf {
    fn new() -> Self {
        ModelBuf {
            blocks: vec![],
            tdl: None,
            arrivals: vec![],
            redundant_arrival: false,
            latest_epoch_token: None,
            incarnation: 0,
        }
    }
    fn complete(&self) -> bool {
        match self.tdl {
            Some(t) if t > 0 => {
                let nb = (t + 7) / 8;
                (0..nb).all(|i| self.blocks.get(i).copied().unwrap_or(false))
            }
            _ => false,
        }
    }
}

fn scenario(env: &Env, d: &mut Delta, rng: &mut impl Rng, sample: bool) {
    d.evaluations += 1;
    let ndg = rng.gen_range(1..=5usize);
    // keys: a base key and variants differing in exactly one component, or the same key twice
    let base = Key {
        src: rng.gen(),
        dst: rng.gen(),
        proto: rng.gen(),
        id: rng.gen(),
    };
    let mut keys: Vec<Key> = vec![];
    for i in 0..ndg {
        let mut kx = base.clone();
        match (i, rng.gen_range(0..5)) {
            (0, _) => {}
            (_, 0) => kx.src ^= 1 << rng.gen_range(0..32),
            (_, 1) => kx.dst ^= 1 << rng.gen_range(0..32),
            (_, 2) => kx.proto ^= 1 << rng.gen_range(0..8),
            (_, 3) => kx.id ^= 1 << rng.gen_range(0..16),
            _ => kx.id = kx.id.wrapping_add(i as u16),
        }
        // datagrams that are in flight together must differ in their key (that is IP's own premise)
        while keys.contains(&kx) {
            kx.id = kx.id.wrapping_add(100 + i as u16);
        }
        keys.push(kx);
    }
    let mut payloads: Vec<Vec<u8>> = vec![];
    let mut headers: Vec<Ipv4Header> = vec![];
    let mut frags: Vec<Frag> = vec![];
    let mut desc_dg = vec![];
    let use_overlap = rng.chance(1, 6);
    for (i, key) in keys.iter().enumerate() {
        // one datagram in ~13 is large, up to the largest legal one (total length 65535 = 65515 payload octets)
        let len = match rng.gen_range(0..40) {
            0 => 65515,
            1 => rng.gen_range(65400..=65515),
            2 => rng.gen_range(20000..=65515),
            x => match x % 6 {
                0 => rng.gen_range(1..=64),
                1 => rng.gen_range(1..=20000),
                2 => 8 * rng.gen_range(1..=200),
                _ => rng.gen_range(1..=3000),
            },
        };
        let len = crate::cap(len);
        let payload = rng.bytes(len);
        let nm = rng.gen_range(1..=3);
        let mut mtus = vec![];
        let mut hi = (if rng.chance(1, 4) { 65535usize } else { 4000 }).min(len + 19).max(68);
        for _ in 0..nm {
            let m = rng.gen_range(68..=hi);
            mtus.push(m);
            hi = m;
        }
        let ttl: u8 = rng.gen();
        let tos: u8 = rng.gen::<u8>() & 0xfc;
        let mk = |start: usize, l: usize, last: bool| Ipv4Header {
            ihl: 5,
            type_of_service: tos.into(),
            total_length: (20 + l) as u16,
            identification: key.id,
            fragment_offset: (start / 8) as u16,
            flags: (if last { 0u8 } else { 1u8 }).into(),
            time_to_live: ttl,
            protocol: key.proto,
            checksum: 0,
            source: Ipv4Address::from(key.src),
            destination: Ipv4Address::from(key.dst),
        };
        let pieces = cut(len, &mtus);
        let np = pieces.len();
        for (j, (s, l)) in pieces.iter().enumerate() {
            frags.push(Frag {
                dgram: i,
                header: mk(*s, *l, j + 1 == np),
                bytes: payload[*s..*s + *l].to_vec(),
                offset_blocks: (*s / 8) as u16,
                last: j + 1 == np,
                alt: false,
            });
        }
        if use_overlap && i == 0 && len > 100 {
            // a second, different cut of the same datagram: some of its pieces arrive too
            let m2 = rng.gen_range(68..=(len + 19).min(2000));
            let alt = cut(len, &[m2]);
            let na = alt.len();
            for (j, (s, l)) in alt.iter().enumerate() {
                if rng.chance(1, 2) {
                    frags.push(Frag {
                        dgram: i,
                        header: mk(*s, *l, j + 1 == na),
                        bytes: payload[*s..*s + *l].to_vec(),
                        offset_blocks: (*s / 8) as u16,
                        last: j + 1 == na,
                        alt: true,
                    });
                }
            }
        }
        desc_dg.push(json!({"len": len, "mtus": mtus, "fragments": np, "key": format!("{:08x}>{:08x} p{} id{}", key.src, key.dst, key.proto, key.id)}));
        headers.push(mk(0, len, true));
        payloads.push(payload);
    }
    // duplicates
    let ndup = rng.gen_range(0..=3usize).min(frags.len());
    let mut dup_idx = vec![];
    for _ in 0..ndup {
        if rng.chance(1, 2) {
            let j = rng.gen_range(0..frags.len());
            dup_idx.push(j);
        }
    }
    for j in &dup_idx {
        let f = frags[*j].clone();
        frags.push(f);
    }
    // order
    let in_order = rng.chance(1, 8);
    if !in_order {
        frags.shuffle(rng);
    }
    // expiry callback positions
    let n_exp = if rng.chance(1, 3) { rng.gen_range(1..=2) } else { 0 };
    let exp_at: Vec<usize> = (0..n_exp).map(|_| rng.gen_range(0..=frags.len())).collect();

    let desc = json!({"datagrams": desc_dg, "arrivals": frags.len(), "duplicates": dup_idx.len(), "overlap_cut": use_overlap, "expiry_callbacks": exp_at});

    if sample {
        d.sample(json!({"scenario": desc, "arrival_order": frags.iter().take(16).map(|f| format!("dg{} off{} len{}{}{}", f.dgram, f.offset_blocks, f.bytes.len(), if f.last {" LAST"} else {""}, if f.alt {" alt"} else {""})).collect::<Vec<_>>()}));
    }
    let mut re = Reassembly::new();
    let mut model: HashMap<Key, ModelBuf> = HashMap::new();
    // for culling: remember the last Incomplete result per key as opaque closure data
    let mut incompletes: Vec<(Key, Box<dyn FnOnce(&mut Reassembly)>, usize, usize)> = vec![]; // (key, call, token, incarnation)
    let mut incarnations: HashMap<Key, usize> = HashMap::new();
    let mut token = 0usize;
    let mut history: Vec<Value> = vec![];
    let mut out_of_order = false;
    let mut interleaved = false;
    let mut last_dgram: Option<usize> = None;
    let mut seen_dgrams = std::collections::HashSet::new();
    let mut max_off: HashMap<usize, u16> = HashMap::new();

    for pos in 0..=frags.len() {
        // expiry callbacks scheduled before arrival `pos`
        for _ in exp_at.iter().filter(|p| **p == pos) {
            if incompletes.is_empty() {
                continue;
            }
            let idx = rng.gen_range(0..incompletes.len());
            let (key, call, tok, inc) = incompletes.remove(idx);
            let fresh = model.get(&key).and_then(|m| m.latest_epoch_token) == Some(tok);
            let same_incarnation = model.get(&key).map(|m| m.incarnation == inc).unwrap_or(false);
            call(&mut re);
            history.push(json!({"cull": format!("id{}", key.id), "fresh_epoch": fresh, "same_incarnation": same_incarnation}));
            // observe the effect on a clone: feed exactly the missing blocks and see whether that completes
            if let Some(mb) = model.get(&key) {
                let dgi = keys.iter().position(|x| *x == key).unwrap();
                let pl = &payloads[dgi];
                let nb_total = (pl.len() + 7) / 8;
                let mut probe = re.clone();
                let mut runs: Vec<(usize, usize)> = vec![];
                let mut b = 0;
                while b < nb_total {
                    if !mb.blocks.get(b).copied().unwrap_or(false) {
                        let s0 = b;
                        while b < nb_total && !mb.blocks.get(b).copied().unwrap_or(false) {
                            b += 1;
                        }
                        runs.push((s0, b));
                    } else {
                        b += 1;
                    }
                }
                if mb.tdl.is_none() && runs.last().map(|r| r.1 != nb_total).unwrap_or(true) {
                    // the final block is covered by a non-final alt piece; cannot finish with missing blocks only
                    runs.clear();
                }
                let mut completed = false;
                let nruns = runs.len();
                for (ri, (s0, e0)) in runs.iter().enumerate() {
                    let bs = s0 * 8;
                    let be = (e0 * 8).min(pl.len());
                    let is_last = *e0 == nb_total;
                    let mut h = headers[dgi];
                    h.total_length = (20 + be - bs) as u16;
                    h.fragment_offset = *s0 as u16;
                    h.flags = (if is_last { 0u8 } else { 1u8 }).into();
                    if let Ok(ReceivePacketResult::Complete(..)) = catch(|| probe.receive_packet(h, Message::new(pl[bs..be].to_vec()))) {
                        completed = ri + 1 == nruns;
                    }
                }
                if nruns > 0 && runs.iter().map(|r| r.1 - r.0).sum::<usize>() < nb_total {
                    d.tally("cull_effect_probes", 1);
                    if fresh && completed {
                        d.violation(
                            "expiry:fresh-epoch-did-not-discard",
                            "after the expiry callback with the epoch of the latest arrival the buffer is still there: feeding only the missing blocks completes the datagram".to_string(),
                            json!({"scenario": desc, "history": history}),
                        );
                        return;
                    }
                    if !fresh && !completed {
                        let sig = if same_incarnation {
                            "expiry:stale-epoch-discarded:same-incarnation"
                        } else {
                            "expiry:stale-epoch-discarded:timer-of-previous-incarnation"
                        };
                        d.violation(
                            sig,
                            "an expiry callback carrying an epoch older than the latest arrival discarded the buffer although fragments had arrived since (feeding the missing blocks no longer completes the datagram)".to_string(),
                            json!({"scenario": desc, "history": history}),
                        );
                        return;
                    }
                }
            }
            if fresh {
                model.remove(&key);
                *incarnations.entry(key.clone()).or_insert(0) += 1;
                d.tally("culls_fresh", 1);
            } else {
                d.tally("culls_stale", 1);
            }
        }
        if pos == frags.len() {
            break;
        }
        let f = &frags[pos];
        let key = keys[f.dgram].clone();
        if let Some(l) = last_dgram {
            if l != f.dgram && seen_dgrams.contains(&f.dgram) {
                interleaved = true;
            }
        }
        seen_dgrams.insert(f.dgram);
        last_dgram = Some(f.dgram);
        let mo = max_off.entry(f.dgram).or_insert(0);
        if f.offset_blocks < *mo {
            out_of_order = true;
        }
        *mo = (*mo).max(f.offset_blocks);

        history.push(json!({"arrive": format!("dg{} off{} len{}{}{}", f.dgram, f.offset_blocks, f.bytes.len(), if f.last {" LAST"} else {""}, if f.alt {" alt"} else {""})}));
        let h = f.header;
        let body = Message::new(f.bytes.clone());
        let res = catch(|| re.receive_packet(h, body));
        let res = match res {
            Ok(r) => r,
            Err(e) => {
                let (msg, loc) = split_panic(&e);
                d.violation(format!("panic:{loc}"), format!("receive_packet panicked: {msg}"), json!({"scenario": desc, "history": history}));
                return;
            }
        };
        // model update
        let whole = f.last && f.offset_blocks == 0;
        let expect_complete;
        if whole {
            model.remove(&key);
            expect_complete = true;
        } else {
            let inc_now = *incarnations.entry(key.clone()).or_insert(0);
            let mb = model.entry(key.clone()).or_insert_with(|| {
                let mut m = ModelBuf::new();
                m.incarnation = inc_now;
                m
            });
            let nb = (f.bytes.len() + 7) / 8;
            let start = f.offset_blocks as usize;
            if mb.blocks.len() < start + nb {
                mb.blocks.resize(start + nb, false);
            }
            if (start..start + nb).any(|b| mb.blocks[b]) {
                mb.redundant_arrival = true;
            }
            for b in start..start + nb {
                mb.blocks[b] = true;
            }
            if f.last {
                mb.tdl = Some(start * 8 + f.bytes.len());
            }
            mb.arrivals.push((f.offset_blocks, f.bytes.clone()));
            expect_complete = mb.complete();
        }
        match res {
            ReceivePacketResult::Complete(hdr, msg) => {
                d.tally("completions", 1);
                if !expect_complete {
                    d.violation(
                        "premature-complete",
                        format!("a datagram was returned at arrival {pos} although the pieces received since its last completion do not cover it"),
                        json!({"scenario": desc, "history": history}),
                    );
                    return;
                }
                let got = msg.to_vec();
                let want = &payloads[f.dgram];
                *incarnations.entry(key.clone()).or_insert(0) += 1;
                let (redundant, arrivals) = if whole {
                    (false, vec![])
                } else {
                    let mb = model.remove(&key).unwrap();
                    (mb.redundant_arrival, mb.arrivals)
                };
                if &got != want {
                    // is it exactly the known defect: every piece received, in offset order, glued end to end?
                    let total: usize = arrivals.iter().map(|a| a.1.len()).sum();
                    let mut sorted = arrivals.clone();
                    sorted.sort_by_key(|a| a.0);
                    let _ = &mut sorted;
                    let ok_concat = got.len() == total && redundant && glued(&got, &sorted);
                    if ok_concat {
                        d.violation(
                            "duplicate-or-overlapping-fragment-concatenated",
                            format!("datagram of {} bytes returned as {} bytes: every received piece (including the repeated/overlapping ones) was glued end to end instead of being placed at its offset", want.len(), got.len()),
                            json!({"scenario": desc, "history": history}),
                        );
                    } else {
                        d.violation(
                            "payload-mismatch",
                            format!("returned payload ({} bytes) differs from the original ({} bytes)", got.len(), want.len()),
                            json!({"scenario": desc, "history": history}),
                        );
                    }
                    return;
                }
                let wh = headers[f.dgram];
                let mut hdr_cmp = hdr;
                hdr_cmp.checksum = 0;
                if hdr_cmp != wh {
                    d.violation(
                        "header-mismatch",
                        format!("returned header {hdr:?} differs from the original {wh:?}"),
                        json!({"scenario": desc, "history": history}),
                    );
                    return;
                }
            }
            ReceivePacketResult::Incomplete(timeout, buf_id, epoch) => {
                if expect_complete {
                    d.violation(
                        "missed-complete",
                        format!("arrival {pos} completes the datagram (all blocks received since its last completion) but nothing was returned"),
                        json!({"scenario": desc, "history": history}),
                    );
                    return;
                }
                if timeout.is_zero() {
                    d.violation("zero-timeout", "Incomplete carries a zero reassembly timeout".to_string(), json!({"scenario": desc}));
                    return;
                }
                token += 1;
                if let Some(mb) = model.get_mut(&key) {
                    mb.latest_epoch_token = Some(token);
                }
                let inc = model.get(&key).map(|m| m.incarnation).unwrap_or(0);
                incompletes.push((key.clone(), Box::new(move |r: &mut Reassembly| r.maybe_cull_segment(buf_id, epoch)), token, inc));
                if incompletes.len() > 64 {
                    incompletes.remove(0);
                }
            }
        }
    }
    let had_event = !dup_idx.is_empty() || n_exp > 0 || use_overlap;
    if interleaved && out_of_order && had_event {
        d.nontrivial(crate::fnv_str(&desc.to_string()) ^ crate::fnv_str(&serde_json::to_string(&history).unwrap()));
    }
    let _ = env;
}

/// all permutations of a small fragment set of one datagram
fn permutations(d: &mut Delta, rng: &mut impl Rng) {
    let len = rng.gen_range(100..=400usize);
    let mtu = rng.gen_range(68..=120usize);
    let payload = rng.bytes(len);
    let pieces = cut(len, &[mtu]);
    if pieces.len() > 5 || pieces.len() < 2 {
        return;
    }
    let key_id: u16 = rng.gen();
    let n = pieces.len();
    let mut idx: Vec<usize> = (0..n).collect();
    // Heap's algorithm, iterative
    let mut c = vec![0usize; n];
    let mut run_perm = |order: &[usize], d: &mut Delta| {
        d.evaluations += 1;
        let mut re = Reassembly::new();
        for (pos, &j) in order.iter().enumerate() {
            let (s, l) = pieces[j];
            let h = Ipv4Header {
                ihl: 5,
                type_of_service: 0u8.into(),
                total_length: (20 + l) as u16,
                identification: key_id,
                fragment_offset: (s / 8) as u16,
                flags: (if j + 1 == n { 0u8 } else { 1u8 }).into(),
                time_to_live: 9,
                protocol: 17,
                checksum: 0,
                source: Ipv4Address::from(1u32),
                destination: Ipv4Address::from(2u32),
            };
            let r = re.receive_packet(h, Message::new(payload[s..s + l].to_vec()));
            let lastpos = pos + 1 == n;
            match r {
                ReceivePacketResult::Complete(_, m) => {
                    if !lastpos {
                        d.violation("premature-complete", format!("permutation {order:?}: complete after {} of {n} fragments", pos + 1), json!({"order": order, "len": len, "mtu": mtu}));
                        return;
                    }
                    if m.to_vec() != payload {
                        d.violation("payload-mismatch", format!("permutation {order:?}: payload differs"), json!({"order": order, "len": len, "mtu": mtu}));
                        return;
                    }
                }
                ReceivePacketResult::Incomplete(..) => {
                    if lastpos {
                        d.violation("missed-complete", format!("permutation {order:?}: all fragments fed, nothing returned"), json!({"order": order, "len": len, "mtu": mtu}));
                        return;
                    }
                }
            }
        }
    };
    run_perm(&idx.clone(), d);
    let mut i = 0;
    while i < n {
        if c[i] < i {
            if i % 2 == 0 {
                idx.swap(0, i);
            } else {
                idx.swap(c[i], i);
            }
            run_perm(&idx.clone(), d);
            c[i] += 1;
            i = 0;
        } else {
            c[i] = 0;
            i += 1;
        }
    }
    d.tally("permutation_sets", 1);
}

fn run(env: &Env, k: u64, d: &mut Delta) {
    let mut rng = scenario_rng("C11", env.seed, k);
    let n = env.tier.pick3(220, 640, 3);
    for i in 0..n {
        scenario(env, d, &mut rng, i == 0 && k < 3);
    }
    for _ in 0..env.tier.pick3(4, 10, 1) {
        permutations(d, &mut rng);
    }
}
