//! C16 — routers forward along the route and TTL bounds every packet's life.

use crate::model::wire;
use crate::net::*;
use crate::{scenario_rng, Delta, Env, PropDef, RngExt};
use elvis::applications::ArpRouter;
use elvis_core::{
    network::{Latency, NetworkBuilder},
    protocols::{
        arp::subnetting::{Ipv4Mask, Ipv4Net, SubnetInfo},
        ipv4::{ipv4_parsing::Ipv4Header, Ipv4, Ipv4Address, Recipient},
        Arp, Endpoint, Endpoints, Pci, Udp,
    },
    run_internet, IpTable, Machine, Message,
};
use rand::Rng;
use serde_json::{json, Value};
use std::{
    collections::HashMap,
    sync::{Arc, Mutex},
    time::Duration,
};

pub static DEF: PropDef = PropDef {
    id: "C16",
    level: "exploration",
    total: |t| t.pick(256, 12000),
    run,
    rule: "generated lines, stars and rings of 1..5 routers over 2..6 /24 subnets with 1..3 hosts each (ARP + subnet info pointing at a router of their subnet), static /24 routes computed by breadth-first search and then perturbed: kept, deleted (black hole), redirected to another neighbour (2- and 3-cycles) or pointed at an address nobody owns, plus default, /16 and /32 host routes through a neighbour or to nobody (so that the longest match decides); every ordered host pair sends UDP datagrams of 1..1400 bytes, two thirds through the stack (initial TTL 30) and, for off-subnet destinations, one third as hand-built IPv4/UDP frames put on the wire by the source host after ARP resolution with an initial TTL of 0, 1, 2..5, 6..29, 30..64, 255 or uniform. A reference walk over the configured tables (own longest-prefix match) predicts, per datagram, the exact sequence of IPv4 frames (network, TTL = initial-k at hop k, a router drops what arrives with TTL 0 or 1, unchanged addresses and payload) and the final delivery or silent drop; the H4 hook's frame log and the hosts' recorder applications must match it exactly, and no frame may appear later. Non-trivial = topology with a path of >=2 router hops and >=1 looping or black-holed datagram; distinct by topology+routes hash.",
    assumptions: &[
        "all networks share one MTU (the router does not fragment)",
        "hosts own exactly one address; a router owns one address per attached subnet",
    ],
    may_exit_process: true,
    watchdog_s: 120,
    nt_floor: |t| t.pick(20, 300),
};

fn ip(x: u32) -> Ipv4Address {
    Ipv4Address::from(x)
}
fn subnet(i: usize) -> u32 {
    0x0A00_0000 | ((i as u32) << 8)
}
fn host_ip(s: usize, h: usize) -> u32 {
    subnet(s) | (h as u32 + 1)
}
fn router_ip(r: usize, s: usize) -> u32 {
    subnet(s) | (200 + r as u32)
}

#[derive(Clone, Debug)]
struct Route {
    /// destination subnet index (usize::MAX for the extra routes that are not a subnet's /24)
    to: usize,
    /// the network the route is for
    prefix: u32,
    len: u32,
    /// None = directly attached through `slot`
    via: Option<u32>,
    slot: u32,
}

fn mask_of(len: u32) -> u32 {
    if len == 0 {
        0
    } else {
        !0u32 << (32 - len)
    }
}

#[derive(Clone, Debug)]
struct RouterCfg {
    subnets: Vec<usize>, // slot -> subnet
    routes: Vec<Route>,
}

#[derive(Clone, Debug)]
struct Dgram {
    id: u32,
    src: (usize, usize),
    dst: (usize, usize),
    len: usize,
    at_ms: u64,
    /// destination address is one nobody owns (same subnet as dst.0, host index 99)
    ghost: bool,
    /// None: sent through the stack's UDP/IPv4 (initial TTL 30). Some(t): the source host resolves the next
    /// hop with ARP and puts a hand-built IPv4/UDP datagram with initial TTL t on the wire itself.
    ttl: Option<u8>,
}

#[derive(Debug, Clone, PartialEq, Eq)]
struct Hop {
    net: usize,
    ttl: u8,
}

/// Reference walk: the frames a datagram must produce and whether it arrives.
fn walk(routers: &[RouterCfg], host_gw: &HashMap<(usize, usize), Option<usize>>, g: &Dgram) -> (Vec<Hop>, bool, &'static str) {
    let dst_ip = if g.ghost { subnet(g.dst.0) | 99 } else { host_ip(g.dst.0, g.dst.1) };
    let dst_subnet = g.dst.0;
    let mut hops = vec![];
    let mut ttl: u8 = g.ttl.unwrap_or(30);
    // source host
    if g.src.0 == dst_subnet {
        // on-subnet: resolve the destination itself
        if g.ghost {
            return (hops, false, "destination does not answer ARP");
        }
        hops.push(Hop { net: g.src.0, ttl });
        return (hops, true, "direct");
    }
    let mut at_router = match host_gw[&g.src] {
        Some(r) => r,
        None => return (hops, false, "gateway does not answer ARP"),
    };
    hops.push(Hop { net: g.src.0, ttl });
    loop {
        // router processing: a datagram arriving with no hop left (0 or 1) dies here
        if ttl <= 1 {
            return (hops, false, "TTL exhausted");
        }
        ttl -= 1;
        let r = &routers[at_router];
        // longest prefix match by the harness's own arithmetic (/24 per subnet, plus default, /16 and /32 routes)
        let route = r.routes.iter().filter(|x| dst_ip & mask_of(x.len) == x.prefix).max_by_key(|x| x.len);
        let route = match route {
            Some(x) => x,
            None => return (hops, false, "no route"),
        };
        let out_subnet = r.subnets[route.slot as usize];
        match route.via {
            None => {
                // deliver on the attached subnet: the destination must live there and answer ARP
                if out_subnet != dst_subnet || g.ghost {
                    return (hops, false, "destination does not answer ARP on the chosen subnet");
                }
                hops.push(Hop { net: out_subnet, ttl });
                return (hops, true, "delivered");
            }
            Some(gw) => {
                // who owns gw on out_subnet?
                let owner = (0..routers.len()).find(|ri| routers[*ri].subnets.contains(&out_subnet) && router_ip(*ri, out_subnet) == gw);
                match owner {
                    Some(next) => {
                        hops.push(Hop { net: out_subnet, ttl });
                        at_router = next;
                    }
                    None => return (hops, false, "next hop does not answer ARP"),
                }
            }
        }
        if hops.len() > 300 {
            return (hops, false, "walk did not terminate");
        }
    }
}

fn scenario(env: &Env, k: u64, case: u64, rng: &mut rand::rngs::SmallRng, d: &mut Delta) {
    d.evaluations += 1;
    let shape = rng.gen_range(0..3);
    let n_sub = rng.gen_range(2..=6usize);
    // routers and their attachments
    let mut routers: Vec<RouterCfg> = vec![];
    match shape {
        0 => {
            for r in 0..(n_sub - 1).min(5) {
                routers.push(RouterCfg { subnets: vec![r, r + 1], routes: vec![] });
            }
        }
        1 => {
            if rng.chance(1, 2) {
                routers.push(RouterCfg { subnets: (0..n_sub).collect(), routes: vec![] });
            } else {
                for r in 1..n_sub.min(6) {
                    routers.push(RouterCfg { subnets: vec![0, r], routes: vec![] });
                }
            }
        }
        _ => {
            let n = n_sub.min(5);
            for r in 0..n {
                routers.push(RouterCfg { subnets: vec![r, (r + 1) % n], routes: vec![] });
            }
        }
    }
    let n_sub_used = routers.iter().flat_map(|r| r.subnets.iter().copied()).max().unwrap() + 1;
    // correct routes by BFS over routers (neighbours share a subnet)
    let nr = routers.len();
    for r in 0..nr {
        for target in 0..n_sub_used {
            if let Some(slot) = routers[r].subnets.iter().position(|s| *s == target) {
                routers[r].routes.push(Route { to: target, prefix: subnet(target), len: 24, via: None, slot: slot as u32 });
                continue;
            }
            // BFS
            let mut prev: Vec<Option<(usize, usize)>> = vec![None; nr]; // (previous router, shared subnet)
            let mut seen = vec![false; nr];
            let mut q = std::collections::VecDeque::new();
            seen[r] = true;
            q.push_back(r);
            let mut found = None;
            while let Some(x) = q.pop_front() {
                if routers[x].subnets.contains(&target) {
                    found = Some(x);
                    break;
                }
                for y in 0..nr {
                    if !seen[y] {
                        if let Some(sh) = routers[x].subnets.iter().find(|s| routers[y].subnets.contains(s)) {
                            seen[y] = true;
                            prev[y] = Some((x, *sh));
                            q.push_back(y);
                        }
                    }
                }
            }
            if let Some(mut x) = found {
                // walk back to the first hop
                let mut first = (x, 0usize);
                while let Some((p, sh)) = prev[x] {
                    first = (x, sh);
                    x = p;
                }
                if first.0 != r {
                    let slot = routers[r].subnets.iter().position(|s| *s == first.1).unwrap();
                    routers[r].routes.push(Route { to: target, prefix: subnet(target), len: 24, via: Some(router_ip(first.0, first.1)), slot: slot as u32 });
                }
            }
        }
    }
    // perturb
    let mut perturbed = 0;
    for r in 0..nr {
        let n_routes = routers[r].routes.len();
        for i in (0..n_routes).rev() {
            if routers[r].routes[i].via.is_none() {
                continue;
            }
            match rng.gen_range(0..10) {
                0 => {
                    routers[r].routes.remove(i);
                    perturbed += 1;
                }
                1 | 2 => {
                    // redirect to some other neighbour on some attached subnet (may create a loop)
                    let slot = rng.gen_range(0..routers[r].subnets.len());
                    let sn = routers[r].subnets[slot];
                    let neigh: Vec<usize> = (0..nr).filter(|y| *y != r && routers[*y].subnets.contains(&sn)).collect();
                    if !neigh.is_empty() {
                        let y = *rng.pick(&neigh);
                        routers[r].routes[i].via = Some(router_ip(y, sn));
                        routers[r].routes[i].slot = slot as u32;
                        perturbed += 1;
                    }
                }
                3 => {
                    let slot = routers[r].routes[i].slot as usize;
                    routers[r].routes[i].via = Some(subnet(routers[r].subnets[slot]) | 250); // nobody
                    perturbed += 1;
                }
                _ => {}
            }
        }
    }
    // hosts
    let hosts_per: Vec<usize> = (0..n_sub_used).map(|_| rng.gen_range(1..=3)).collect();
    let mut host_gw: HashMap<(usize, usize), Option<usize>> = HashMap::new();
    let mut host_gw_ip: HashMap<(usize, usize), u32> = HashMap::new();
    for s in 0..n_sub_used {
        let rs: Vec<usize> = (0..nr).filter(|r| routers[*r].subnets.contains(&s)).collect();
        for h in 0..hosts_per[s] {
            if rng.chance(1, 12) || rs.is_empty() {
                host_gw.insert((s, h), None);
                host_gw_ip.insert((s, h), subnet(s) | 251);
            } else {
                let r = *rng.pick(&rs);
                host_gw.insert((s, h), Some(r));
                host_gw_ip.insert((s, h), router_ip(r, s));
            }
        }
    }
    // less and more specific routes on top of the per-subnet /24s: a default route, a /16 covering every
    // subnet, host routes (/32) that pull one host's traffic another way. They go through a neighbour (a
    // detour, possibly a loop) or to an address nobody owns.
    for r in 0..nr {
        for kind in 0..3 {
            if !rng.chance(1, 4) {
                continue;
            }
            let slot = rng.gen_range(0..routers[r].subnets.len());
            let sn = routers[r].subnets[slot];
            let neigh: Vec<usize> = (0..nr).filter(|y| *y != r && routers[*y].subnets.contains(&sn)).collect();
            let via = if neigh.is_empty() || rng.chance(1, 5) { subnet(sn) | 250 } else { router_ip(*rng.pick(&neigh), sn) };
            let (prefix, len) = match kind {
                0 => (0u32, 0u32),
                1 => (0x0A00_0000, 16),
                _ => {
                    let s = rng.gen_range(0..n_sub_used);
                    (host_ip(s, rng.gen_range(0..hosts_per[s])), 32)
                }
            };
            if routers[r].routes.iter().any(|x| x.prefix == prefix && x.len == len) {
                continue;
            }
            routers[r].routes.push(Route { to: usize::MAX, prefix, len, via: Some(via), slot: slot as u32 });
            perturbed += 1;
        }
    }
    // datagrams: all ordered host pairs (capped), plus a few to unowned addresses
    let all_hosts: Vec<(usize, usize)> = (0..n_sub_used).flat_map(|s| (0..hosts_per[s]).map(move |h| (s, h))).collect();
    let mut dgrams = vec![];
    let mut id = 1u32;
    for a in &all_hosts {
        for b in &all_hosts {
            if a != b && (all_hosts.len() <= 6 || rng.chance(1, 3)) {
                // off-subnet datagrams: one in three is hand-built with a boundary or arbitrary initial TTL
                let ttl = if a.0 != b.0 && rng.chance(1, 3) {
                    Some(match rng.gen_range(0..8) {
                        0 | 1 => 0u8,
                        2 => 1,
                        3 => rng.gen_range(2..=5),
                        4 => rng.gen_range(6..=29),
                        5 => rng.gen_range(30..=64),
                        6 => 255,
                        _ => rng.gen(),
                    })
                } else {
                    None
                };
                dgrams.push(Dgram { id, src: *a, dst: *b, len: *rng.pick(&[1usize, 8, 100, 1400]), at_ms: rng.gen_range(0..50), ghost: rng.chance(1, 15), ttl });
                id += 1;
            }
        }
    }
    let lat = *rng.pick(&[0u64, 1, 3]);
    let shape_name = ["line", "star", "ring"][shape];
    let desc = json!({
        "shape": shape_name, "subnets": n_sub_used, "hosts_per_subnet": hosts_per,
        "routers": routers.iter().enumerate().map(|(i, r)| json!({"router": i, "attached": r.subnets, "routes": r.routes.iter().map(|x| format!("{}/{} -> {} slot {}", ip(x.prefix), x.len, x.via.map(|v| format!("{}", ip(v))).unwrap_or("direct".into()), x.slot)).collect::<Vec<_>>()})).collect::<Vec<_>>(),
        "host_gateways": host_gw_ip.iter().map(|(k, v)| format!("10.0.{}.{} gw {}", k.0, k.1 + 1, ip(*v))).collect::<Vec<_>>(),
        "perturbed_routes": perturbed, "datagrams": dgrams.len(), "latency_ms": lat, "scenario": k, "case": case,
    });

    let log: Log = Arc::new(Mutex::new(vec![]));
    let (rec, net_ids) = {
        let routers = routers.clone();
        let dgrams = dgrams.clone();
        let log = log.clone();
        let hosts_per = hosts_per.clone();
        let host_gw_ip = host_gw_ip.clone();
        run_paused(async move {
            let mk = || {
                let mut b = NetworkBuilder::new().mtu(1500);
                if lat > 0 {
                    b = b.latency(Latency::variable(ms(0), ms(lat)));
                }
                b.build()
            };
            let nets: Vec<_> = (0..n_sub_used).map(|_| mk()).collect();
            // circuit breaker: a forwarding loop that never ends must not eat the machine; everything after
            // 20000 frames is dropped (the count alone already convicts it)
            let mut seen_frames = 0u64;
            let rec = Recorder::new(Box::new(move |_f: &FrameRec| {
                seen_frames += 1;
                if seen_frames > 20_000 {
                    elvis_core::network::verif::Verdict::Drop
                } else {
                    elvis_core::network::verif::Verdict::PASS
                }
            }));
            for n in &nets {
                n.set_verif_hook(rec.clone());
            }
            let t0 = tokio::time::Instant::now();
            let mut machines = vec![];
            for (ri, r) in routers.iter().enumerate() {
                let mut rt: IpTable<(Option<Ipv4Address>, u32)> = IpTable::new();
                for x in &r.routes {
                    rt.add(Ipv4Net::new(ip(x.prefix), Ipv4Mask::from_bitcount(x.len)), (x.via.map(ip), x.slot));
                }
                let local: Vec<Ipv4Address> = r.subnets.iter().map(|s| ip(router_ip(ri, *s))).collect();
                let table: IpTable<Recipient> = local.iter().enumerate().map(|(slot, a)| (*a, Recipient::new(slot as u32, None))).collect();
                machines.push(
                    Machine::new()
                        .with(Pci::new(r.subnets.iter().map(|s| nets[*s].clone())))
                        .with(Ipv4::new(table))
                        .with(Arp::new())
                        .with(ArpRouter::new(rt, local))
                        .arc(),
                );
            }
            let mut hidx = 0usize;
            for s in 0..n_sub_used {
                for h in 0..hosts_per[s] {
                    let me_ip = host_ip(s, h);
                    let gw = host_gw_ip[&(s, h)];
                    let mine: Vec<Dgram> = {
                        let mut v: Vec<Dgram> = dgrams.iter().filter(|g| g.src == (s, h)).cloned().collect();
                        v.sort_by_key(|g| g.at_ms);
                        v
                    };
                    let mut parts = AppParts::new(1000 + s * 10 + h, log.clone(), t0);
                    parts.setup = Some(Box::new(move |machine, me| {
                        Box::pin(async move {
                            let udp = machine.protocol::<Udp>().unwrap();
                            udp.listen(me, Endpoint::new(ip(me_ip), 9), machine.clone()).unwrap();
                        })
                    }));
                    let first_host = hidx == 0;
                    parts.body = Some(Box::new(move |machine, me, shutdown| {
                        Box::pin(async move {
                            let udp = machine.protocol::<Udp>().unwrap();
                            let mut handles = vec![];
                            for g in mine {
                                let udp = udp.clone();
                                let machine = machine.clone();
                                handles.push(tokio::spawn(async move {
                                    tokio::time::sleep(ms(g.at_ms)).await;
                                    let dst = if g.ghost { subnet(g.dst.0) | 99 } else { host_ip(g.dst.0, g.dst.1) };
                                    let mut p = g.id.to_be_bytes().to_vec();
                                    p.resize(g.len.max(4), (g.id % 200) as u8);
                                    if let Some(t) = g.ttl {
                                        let arp = machine.protocol::<Arp>().unwrap();
                                        let pair = elvis_core::protocols::AddressPair { local: ip(me_ip), remote: ip(dst) };
                                        if let Ok(mac) = arp.resolve(pair, 0, machine.clone()).await {
                                            let (s4, d4) = (me_ip.to_be_bytes(), dst.to_be_bytes());
                                            let udp = wire::pack_udp(s4, 1000 + (g.id % 60000) as u16, d4, 9, &p, false);
                                            let h = wire::Ip4 { tos: 0, total_length: (20 + udp.len() + p.len()) as u16, id: g.id as u16, df: false, mf: false, offset: 0, ttl: t, protocol: 17, src: s4, dst: d4 };
                                            // the default build neither computes nor accepts checksums other than zero
                                            let mut bytes = wire::pack_ipv4(&h, false);
                                            bytes.extend_from_slice(&udp);
                                            bytes.extend_from_slice(&p);
                                            let _ = machine.protocol::<Pci>().unwrap().open(0).send_pci(Message::new(bytes), Some(mac), std::any::TypeId::of::<Ipv4>());
                                        }
                                        return;
                                    }
                                    let eps = Endpoints::new(Endpoint::new(ip(me_ip), 1000 + (g.id % 60000) as u16), Endpoint::new(ip(dst), 9));
                                    if let Ok(sess) = udp.open_for_sending(me, eps, machine.clone()).await {
                                        let _ = sess.send(Message::new(p), machine);
                                    }
                                }));
                            }
                            for hnd in handles {
                                let _ = hnd.await;
                            }
                            if first_host {
                                // every ARP failure takes 2 s; chains of them add up. Then stay silent for 5 s more.
                                tokio::time::sleep(Duration::from_secs(100)).await;
                                shutdown.shut_down();
                            }
                        })
                    }));
                    let table: IpTable<Recipient> = [(ip(me_ip), Recipient::new(0, None))].into_iter().collect();
                    let m = Machine::new()
                        .with(Udp::new())
                        .with(Ipv4::new(table))
                        .with(Pci::new([nets[s].clone()]))
                        .with(Arp::new().preconfig_subnet(ip(me_ip), SubnetInfo { mask: Ipv4Mask::from_bitcount(24), default_gateway: ip(gw) }));
                    machines.push(with_app(m, 0, || parts).arc());
                    hidx += 1;
                }
            }
            let _ = run_internet(&machines, Some(Duration::from_secs(400))).await;
            (rec, nets.iter().map(|n| n.verif_id()).collect::<Vec<_>>())
        })
    };
    let frames = rec.snapshot();
    let events = log.lock().unwrap().clone();
    d.tally("datagrams", dgrams.len() as u64);
    d.tally("ipv4_frames", frames.iter().filter(|f| f.kind == Kind::Ipv4).count() as u64);
    let witness = |extra: Value| json!({"topology": desc, "detail": extra});
    let mut multi_hop = false;
    let mut dropped_kind = false;
    for g in &dgrams {
        let (want, delivered, why) = walk(&routers, &host_gw, g);
        if want.len() >= 3 {
            multi_hop = true;
        }
        if !delivered && (why == "TTL exhausted" || why == "no route" || why.contains("next hop")) {
            dropped_kind = true;
        }
        d.saw("outcomes", why.to_string());
        let dst_ip = if g.ghost { subnet(g.dst.0) | 99 } else { host_ip(g.dst.0, g.dst.1) };
        let mut got: Vec<(u64, Hop, Ipv4Header, Vec<u8>)> = vec![];
        for f in frames.iter().filter(|f| f.kind == Kind::Ipv4 && f.bytes.len() >= 32) {
            if f.bytes[28..32] == g.id.to_be_bytes() {
                if let Ok(h) = Ipv4Header::from_bytes(f.bytes.iter().cloned()) {
                    let net = net_ids.iter().position(|x| *x == f.net_id).unwrap_or(999);
                    got.push((f.stamp, Hop { net, ttl: h.time_to_live }, h, f.bytes[28..].to_vec()));
                }
            }
        }
        got.sort_by_key(|x| x.0);
        let got_hops: Vec<Hop> = got.iter().map(|x| x.1.clone()).collect();
        let mut payload = g.id.to_be_bytes().to_vec();
        payload.resize(g.len.max(4), (g.id % 200) as u8);
        let ttl0 = g.ttl.unwrap_or(30);
        d.saw("initial_ttl", ttl0.to_string());
        if got_hops.len() > ttl0.max(1) as usize {
            d.violation("more-frames-than-ttl", format!("datagram #{} produced {} IPv4 frames with an initial TTL of {ttl0}", g.id, got_hops.len()), witness(json!({"datagram": format!("{g:?}")})));
            return;
        }
        if got_hops != want {
            let sig = if got_hops.len() > want.len() {
                if got_hops.iter().zip(got_hops.iter().skip(1)).any(|(a, b)| b.ttl >= a.ttl) { "ttl-not-decremented" } else { "forwarded-beyond-model" }
            } else if got_hops.len() < want.len() {
                "frames-missing"
            } else if got_hops.iter().zip(want.iter()).any(|(a, b)| a.net == b.net && a.ttl != b.ttl) {
                "ttl-not-decremented"
            } else {
                "wrong-network"
            };
            d.violation(
                format!("path:{sig}"),
                format!("datagram #{} from 10.0.{}.{} to {}: frames seen (network, TTL) {:?}, reference walk expects {:?} ({why})", g.id, g.src.0, g.src.1 + 1, ip(dst_ip), got_hops.iter().map(|h| (h.net, h.ttl)).collect::<Vec<_>>(), want.iter().map(|h| (h.net, h.ttl)).collect::<Vec<_>>()),
                witness(json!({"datagram": format!("{g:?}")})),
            );
            return;
        }
        for (_, _, h, udp) in &got {
            if h.source != ip(host_ip(g.src.0, g.src.1)) || h.destination != ip(dst_ip) || udp[..] != payload[..] {
                d.violation("packet-altered-in-transit", format!("datagram #{}: a forwarded frame has source {} destination {} and {} payload bytes", g.id, h.source, h.destination, udp.len()), witness(json!({"datagram": format!("{g:?}")})));
                return;
            }
        }
        let recv: Vec<&DemuxEvent> = events.iter().filter(|e| e.payload.len() >= 4 && e.payload[..4] == g.id.to_be_bytes()).collect();
        let want_at = 1000 + g.dst.0 * 10 + g.dst.1;
        if delivered {
            if recv.len() != 1 || recv[0].machine != want_at || recv[0].payload != payload {
                d.violation(
                    if recv.is_empty() { "not-delivered" } else if recv.len() > 1 { "delivered-more-than-once" } else { "delivered-to-wrong-host-or-altered" },
                    format!("datagram #{} should arrive once at host 10.0.{}.{}; recorder events: {:?}", g.id, g.dst.0, g.dst.1 + 1, recv.iter().map(|e| (e.machine, e.payload.len())).collect::<Vec<_>>()),
                    witness(json!({"datagram": format!("{g:?}")})),
                );
                return;
            }
        } else if !recv.is_empty() {
            d.violation("delivered-despite-drop", format!("datagram #{} must be dropped ({why}) but was delivered to machine {}", g.id, recv[0].machine), witness(json!({"datagram": format!("{g:?}")})));
            return;
        }
    }
    // silence: nothing but ARP retries may appear late; IPv4 frames must all be accounted for above
    let unaccounted = frames.iter().filter(|f| f.kind == Kind::Ipv4 && f.bytes.len() >= 32).filter(|f| !dgrams.iter().any(|g| f.bytes[28..32] == g.id.to_be_bytes())).count();
    if unaccounted > 0 {
        d.violation("unaccounted-frames", format!("{unaccounted} IPv4 frames belong to no datagram that was sent"), witness(json!({})));
        return;
    }
    if multi_hop && dropped_kind {
        d.nontrivial(crate::fnv_str(&desc.to_string()));
    }
    if case == 0 && k < 2 {
        d.sample(json!({"topology": desc, "frames": frames.len(), "deliveries": events.len()}));
    }
    let _ = env;
}

fn run(env: &Env, k: u64, d: &mut Delta) {
    let mut rng = scenario_rng("C16", env.seed, k);
    for case in 0..env.tier.pick(20, 30) {
        scenario(env, k, case, &mut rng, d);
    }
}
