//! C03 — TCP connections open, synchronise and close as RFC 9293 prescribes.

use crate::props::c01::{pick_isn, side_name};
use crate::tcbsim::*;
use crate::{scenario_rng, split_panic, Delta, Env, PropDef, RngExt};
use elvis_core::protocols::tcp::verif::State;
use rand::Rng;
use serde_json::{json, Value};
use std::collections::HashSet;

pub static DEF: PropDef = PropDef {
    id: "C03",
    level: "exploration",
    total: |t| t.pick(256, 3200),
    run,
    rule: "(a) bounded depth-first enumeration of executions of a real TCB pair (both open styles): at every state each in-flight segment may be delivered, dropped (<=2) or duplicated (<=1), a 101 ms timer may fire (<=2), either application may close (once each, in every reachable state) or write 1/3000 bytes (once each); emitted segments enter the network automatically; visited states are hashed on both snapshots + in-flight multiset; every call is checked by the transition/sync/data-before-FIN monitor and leaves are completed over a fair network to check release. (b) random deeper schedules with writes up to 3000 bytes queued or in flight at close, old duplicate SYN of an earlier incarnation injected (initial sequence number 1..200 or 1000..100000 below or above the current one), then closes and a fair network. Non-trivial = both endpoints reached a closing state; distinct by final monitor trace hash. Evidence lists the distinct RFC 9293 edges exercised.",
    assumptions: &[
        "applications read eagerly (after every arrival) so 'delivered' means handed to the application by receive()",
        "release bound: 40 fair rounds + 2*MSL (MSL = 1 s in this stack) of simulated time after the last close",
        "an RST is acceptable only in answer to an injected old duplicate SYN (RFC 9293 figure 8)",
    ],
    may_exit_process: false,
    watchdog_s: 600,
    nt_floor: |t| t.pick(200, 5000),
};

fn st(s: Option<State>) -> &'static str {
    match s {
        None => "NONE",
        Some(State::SynSent) => "SYN-SENT",
        Some(State::SynReceived) => "SYN-RCVD",
        Some(State::Established) => "ESTAB",
        Some(State::FinWait1) => "FIN-WAIT-1",
        Some(State::FinWait2) => "FIN-WAIT-2",
        Some(State::CloseWait) => "CLOSE-WAIT",
        Some(State::Closing) => "CLOSING",
        Some(State::LastAck) => "LAST-ACK",
        Some(State::TimeWait) => "TIME-WAIT",
    }
}

#[derive(Clone, Copy, PartialEq, Eq, Debug)]
enum Label {
    RcvSyn,
    RcvSynAck,
    RcvAckOfSyn,
    RcvFin,
    RcvAckOfFin,
    RcvFinAndAckOfFin,
    RcvRst,
}

/// "rcv …" edges of RFC 9293 figure 5 plus the §3.10.7.4 text edge SYN-RECEIVED → CLOSE-WAIT
fn rcv_edges() -> Vec<(State, Option<State>, Label)> {
    use State::*;
    vec![
        (SynSent, Some(SynReceived), Label::RcvSyn),
        (SynSent, Some(Established), Label::RcvSynAck),
        (SynReceived, Some(Established), Label::RcvAckOfSyn),
        (SynReceived, Some(CloseWait), Label::RcvFin),
        (Established, Some(CloseWait), Label::RcvFin),
        (FinWait1, Some(FinWait2), Label::RcvAckOfFin),
        (FinWait1, Some(Closing), Label::RcvFin),
        (FinWait1, Some(TimeWait), Label::RcvFinAndAckOfFin),
        (FinWait2, Some(TimeWait), Label::RcvFin),
        (Closing, Some(TimeWait), Label::RcvAckOfFin),
        (LastAck, None, Label::RcvAckOfFin),
        // resets delete the TCB from any state
        (SynSent, None, Label::RcvRst),
        (SynReceived, None, Label::RcvRst),
        (Established, None, Label::RcvRst),
        (FinWait1, None, Label::RcvRst),
        (FinWait2, None, Label::RcvRst),
        (CloseWait, None, Label::RcvRst),
        (Closing, None, Label::RcvRst),
        (LastAck, None, Label::RcvRst),
        (TimeWait, None, Label::RcvRst),
    ]
}

/// Per-endpoint knowledge the monitor accumulates from the API boundary
#[derive(Clone, Default)]
struct SideMon {
    syn_arrived: bool,
    synack_arrived: bool,
    fin_arrived: bool,
    rst_arrived: bool,
    /// ack numbers of all ACK-bearing segments handed to this endpoint
    acks: Vec<u32>,
    /// sequence number of our FIN (snd.nxt before close), once closed
    fin_seq: Option<u32>,
    peer_fin_consumed: bool,
    /// simulated time this endpoint has been told has passed
    clock_ms: u64,
    /// clock when TIME-WAIT was entered
    time_wait_since: Option<u64>,
}

#[derive(Clone)]
pub struct Mon {
    sides: [SideMon; 2],
    pub edges: Vec<String>,
    pub injected_old_syn: bool,
    pub trace: Vec<String>,
}

fn fin_consumed_state(s: Option<State>) -> bool {
    matches!(s, Some(State::CloseWait) | Some(State::Closing) | Some(State::LastAck) | Some(State::TimeWait))
}

impl Mon {
    pub fn new() -> Mon {
        Mon {
            sides: [SideMon::default(), SideMon::default()],
            edges: vec![],
            injected_old_syn: false,
            trace: vec![],
        }
    }

    fn label_ok(&self, side: usize, l: Label, p: &Pair, o: &CallObs) -> bool {
        let m = &self.sides[side];
        let iss = p.sides[side].iss;
        match l {
            Label::RcvSyn => m.syn_arrived,
            Label::RcvSynAck => m.synack_arrived && m.acks.contains(&iss.wrapping_add(1)),
            Label::RcvAckOfSyn => m.acks.iter().any(|a| seq_leq(iss.wrapping_add(1), *a)),
            Label::RcvFin => m.fin_arrived,
            Label::RcvAckOfFin => match m.fin_seq {
                Some(f) => m.acks.iter().any(|a| *a == f.wrapping_add(1)),
                None => false,
            },
            Label::RcvFinAndAckOfFin => {
                m.fin_arrived
                    && match m.fin_seq {
                        Some(f) => m.acks.iter().any(|a| *a == f.wrapping_add(1)),
                        None => false,
                    }
            }
            Label::RcvRst => {
                let _ = o;
                m.rst_arrived
            }
        }
    }

    /// Is there a path of rcv edges from `from` to `to` whose labels are all satisfied?
    fn rcv_path(&self, side: usize, from: State, to: Option<State>, p: &Pair, o: &CallObs, used: &mut Vec<String>) -> bool {
        if Some(from) == to {
            return true;
        }
        // prefer the direct edge so that evidence attributes the transition to it
        let mut edges = rcv_edges();
        edges.sort_by_key(|e| !(e.0 == from && e.1 == to));
        for (a, b, l) in edges {
            if a == from && self.label_ok(side, l, p, o) {
                let name = format!("{} -> {} ({:?})", st(Some(a)), st(b), l);
                match b {
                    None => {
                        if to.is_none() {
                            used.push(name);
                            return true;
                        }
                    }
                    Some(nb) => {
                        if nb != from {
                            used.push(name);
                            if self.rcv_path(side, nb, to, p, o, used) {
                                return true;
                            }
                            used.pop();
                        }
                    }
                }
            }
        }
        false
    }

    /// Digest everything `p.obs` recorded since the last call. Returns a violation if any.
    pub fn digest(&mut self, p: &mut Pair) -> Option<(String, String)> {
        let obs: Vec<CallObs> = p.obs.drain(..).collect();
        for o in &obs {
            let side = o.side;
            // bookkeeping first
            match o.kind {
                CallKind::Arrive | CallKind::ListenArrive => {
                    let m = &mut self.sides[side];
                    if o.flags & 2 != 0 {
                        m.syn_arrived = true;
                        if o.flags & 16 != 0 {
                            m.synack_arrived = true;
                        }
                    }
                    if o.flags & 1 != 0 {
                        m.fin_arrived = true;
                    }
                    if o.flags & 4 != 0 {
                        m.rst_arrived = true;
                    }
                    if o.flags & 16 != 0 {
                        m.acks.push(o.seg_ack);
                    }
                }
                CallKind::Segments => {
                    // our FIN's sequence number is whatever the first emitted FIN carries
                    for (seq, _ack, flags, len, _wnd) in &o.emitted {
                        if flags & 1 != 0 && self.sides[side].fin_seq.is_none() {
                            self.sides[side].fin_seq = Some(seq.wrapping_add(*len as u32));
                        }
                    }
                }
                _ => {}
            }
            let before = o.before;
            let after = if o.released { None } else { o.after };
            let changed = before != after;
            if o.kind == CallKind::Tick {
                self.sides[side].clock_ms += o.detail;
            }
            if after == Some(State::TimeWait) && before != Some(State::TimeWait) {
                self.sides[side].time_wait_since = Some(self.sides[side].clock_ms);
            }
            let describe = format!("{}:{:?} {} -> {}", side_name(side), o.kind, st(before), st(after));
            if changed {
                self.trace.push(describe.clone());
            }
            let bad = |why: &str| Some((format!("illegal-transition:{:?}:{}->{}", o.kind, st(before), st(after)), format!("{describe}: {why}")));
            match o.kind {
                CallKind::Open => {
                    if !(before.is_none() && after == Some(State::SynSent)) {
                        return bad("an active OPEN must create a TCB in SYN-SENT");
                    }
                    self.edges.push("CLOSED -> SYN-SENT (active OPEN)".into());
                }
                CallKind::ListenArrive => {
                    if changed {
                        if !(after == Some(State::SynReceived) && o.flags & 2 != 0 && o.flags & (16 | 4) == 0) {
                            return bad("LISTEN may only move to SYN-RECEIVED, on a SYN without ACK/RST");
                        }
                        self.edges.push("LISTEN -> SYN-RCVD (rcv SYN)".into());
                    }
                }
                CallKind::Arrive => {
                    if changed {
                        let mut used = vec![];
                        let from = before.unwrap();
                        if !self.rcv_path(side, from, after, p, o, &mut used) {
                            return bad(&format!(
                                "no sequence of RFC 9293 'rcv' transitions justified by the segments delivered so far leads there (arriving segment [{}] seq={} ack={} len={})",
                                flag_names(o.flags),
                                o.seg_seq,
                                o.seg_ack,
                                o.seg_len
                            ));
                        }
                        for u in used {
                            self.edges.push(u);
                        }
                    }
                }
                CallKind::Close => {
                    if changed {
                        let ok = matches!(
                            (before, after),
                            (Some(State::Established), Some(State::FinWait1))
                                | (Some(State::SynReceived), Some(State::FinWait1))
                                | (Some(State::CloseWait), Some(State::LastAck))
                        );
                        if !ok {
                            return bad("CLOSE may only take ESTAB/SYN-RCVD to FIN-WAIT-1 or CLOSE-WAIT to LAST-ACK");
                        }
                        self.edges.push(format!("{} -> {} (CLOSE)", st(before), st(after)));
                    }
                }
                CallKind::Tick => {
                    if changed {
                        if !(before == Some(State::TimeWait) && after.is_none()) {
                            return bad("a timer may only delete the TCB from TIME-WAIT");
                        }
                        let since = self.sides[side].time_wait_since.unwrap_or(0);
                        let waited = self.sides[side].clock_ms - since;
                        if waited < 2000 {
                            return Some((
                                "time-wait-too-short".into(),
                                format!("{} was released from TIME-WAIT after {waited} ms of simulated time, less than 2*MSL = 2000 ms", side_name(side)),
                            ));
                        }
                        self.edges.push("TIME-WAIT -> CLOSED (2MSL timeout)".into());
                    }
                }
                CallKind::Send | CallKind::Receive | CallKind::Segments => {
                    if changed {
                        return bad("send/receive/segments must not change the connection state");
                    }
                }
            }
            // 2MSL: release from TIME-WAIT by timer must not come early
            // (checked by the scenario runner in simulated time)

            // data before end of stream
            if fin_consumed_state(after) || (o.released && before == Some(State::LastAck)) {
                // handled below once per side
            }
        }
        // sync and data-before-FIN are judged on the pair as a whole
        for s in [A, B] {
            let o = 1 - s;
            if let (Some(me), Some(peer)) = (p.sides[s].snap(), p.sides[o].snap()) {
                let synced = |x: State| !matches!(x, State::SynSent);
                // ... with each other: after a reset in SYN-RECEIVED the passive side may already be in a new
                // incarnation (own ISS) while the other side still holds the old connection
                let same_incarnation = me.irs == peer.iss && peer.irs == me.iss;
                if synced(me.state) && synced(peer.state) && me.state != State::SynReceived && same_incarnation {
                    // what I expect next never exceeds what the peer has sent
                    if !seq_leq(me.rcv_nxt, peer.snd_nxt) {
                        return Some((
                            "sync:rcv.nxt-beyond-peer-snd.nxt".into(),
                            format!("{} expects sequence {} but {} has only sent up to {}", side_name(s), me.rcv_nxt, side_name(o), peer.snd_nxt),
                        ));
                    }
                    if peer.state != State::SynReceived && !seq_leq(peer.snd_una, me.rcv_nxt) {
                        return Some((
                            "sync:peer-snd.una-beyond-rcv.nxt".into(),
                            format!("{} considers {} acknowledged but {} has only received up to {}", side_name(o), peer.snd_una, side_name(s), me.rcv_nxt),
                        ));
                    }
                }
            }
            // first time this side shows the peer's FIN consumed
            let stt = p.sides[s].state();
            if fin_consumed_state(stt) && !self.sides[s].peer_fin_consumed {
                self.sides[s].peer_fin_consumed = true;
                // the application reads whatever is receivable right now
                p.read(s);
                p.obs.clear();
                let want = p.sides[o].submitted_at_close;
                let got = p.sides[s].delivered.len();
                if !p.sides[o].close_called {
                    return Some((
                        "fin-consumed-without-peer-close".into(),
                        format!("{} is in {} although {} never called close", side_name(s), st(stt), side_name(o)),
                    ));
                }
                if got != want || !is_prefix(&p.sides[s].delivered, &p.sides[o].submitted) {
                    let peer_snap = p.sides[o].snap();
                    let unsent = peer_snap.map(|x| x.text_len).unwrap_or(0);
                    let sig = if unsent > 0 {
                        "data-before-fin:close-with-unsegmentized-text"
                    } else {
                        "data-before-fin:bytes-missing-at-end-of-stream"
                    };
                    return Some((
                        sig.into(),
                        format!(
                            "{} saw the end of the stream (state {}) after receiving {got} of the {want} bytes {} submitted before close; {} bytes still sit unsegmentised in {}'s send queue",
                            side_name(s),
                            st(stt),
                            side_name(o),
                            unsent,
                            side_name(o)
                        ),
                    ));
                }
            }
        }
        None
    }
}

fn quiescent_sync(p: &Pair) -> Option<(String, String)> {
    if !p.net.is_empty() {
        return None;
    }
    for s in [A, B] {
        let o = 1 - s;
        if let (Some(me), Some(peer)) = (p.sides[s].snap(), p.sides[o].snap()) {
            let est = |x: State| !matches!(x, State::SynSent | State::SynReceived);
            if est(me.state) && est(peer.state) && peer.text_len == 0 && peer.retransmit_len == 0 && peer.oneshot_len == 0 && me.heap_len == 0 {
                if me.rcv_nxt != peer.snd_nxt {
                    return Some((
                        "sync:not-equal-at-quiescence".into(),
                        format!("nothing in flight or queued, yet {} expects {} while {} has sent up to {}", side_name(s), me.rcv_nxt, side_name(o), peer.snd_nxt),
                    ));
                }
            }
        }
    }
    None
}

fn witness(p: &Pair, mon: &Mon, actions: &[String], params: &Value) -> Value {
    let n = actions.len();
    json!({
        "params": params,
        "actions": actions[n.saturating_sub(50)..].to_vec(),
        "transitions": mon.trace,
        "endpoints": crate::props::c01::describe(p),
    })
}

/// Finish a scenario over a fair network and check release. `both_closed` decides whether release is demanded.
fn complete_and_check(p: &mut Pair, mon: &mut Mon, actions: &mut Vec<String>, d: &mut Delta, params: &Value) -> bool {
    let both_closed = p.sides[A].close_called && p.sides[B].close_called;
    // 40 rounds + 2 MSL = 2000 ms = 20 rounds of 101 ms, +5 slack
    let outstanding = p.sides[A].submitted.len() + p.sides[B].submitted.len();
    let bound = 65 + 8 * (outstanding as u64 / 60_000);
    let mut rounds = 0;
    let mut time_wait_entered_at: [Option<u64>; 2] = [None, None];
    let mut released_at: [Option<u64>; 2] = [None, None];
    for s in [A, B] {
        if p.sides[s].state() == Some(State::TimeWait) {
            time_wait_entered_at[s] = Some(0);
        }
    }
    while rounds < bound {
        rounds += 1;
        // one fair round, digesting after every primitive so that transitions are seen one call at a time
        for s in [A, B] {
            p.pump(s);
            if let Some(v) = step_check(p, mon, d, actions, params) {
                return v;
            }
        }
        let n = p.net.len();
        for _ in 0..n {
            p.deliver(0);
            if let Some(v) = step_check(p, mon, d, actions, params) {
                return v;
            }
            p.read(A);
            p.read(B);
            if let Some(v) = step_check(p, mon, d, actions, params) {
                return v;
            }
        }
        for s in [A, B] {
            let was_tw = p.sides[s].state() == Some(State::TimeWait);
            if was_tw && time_wait_entered_at[s].is_none() {
                time_wait_entered_at[s] = Some(rounds);
            }
            p.tick(s, 101);
            if let Some(v) = step_check(p, mon, d, actions, params) {
                return v;
            }
            if p.sides[s].released && released_at[s].is_none() {
                released_at[s] = Some(rounds);
            }
        }
        actions.push("fair-round".into());
        if let Some((sig, what)) = quiescent_sync(p) {
            d.violation(sig, what, witness(p, mon, actions, params));
            return false;
        }
        if p.sides[A].released && p.sides[B].released {
            break;
        }
        if !both_closed && p.net.is_empty() && rounds > 30 {
            break;
        }
    }
    if both_closed {
        let rst = p.sides[A].rst_emitted + p.sides[B].rst_emitted;
        if !(p.sides[A].released && p.sides[B].released) {
            d.violation(
                format!("not-released:{}/{}", st(p.sides[A].state()), st(p.sides[B].state())),
                format!(
                    "both applications closed and the network was fair for {rounds} rounds ({} ms), yet the endpoints are in {}/{} (released: {}/{})",
                    rounds * 101,
                    st(p.sides[A].state()),
                    st(p.sides[B].state()),
                    p.sides[A].released,
                    p.sides[B].released
                ),
                witness(p, mon, actions, params),
            );
            return false;
        }
        if rst > 0 && !mon.injected_old_syn {
            d.violation(
                "reset-instead-of-close",
                format!("{rst} RST segment(s) were emitted although only loss/duplication/reordering of the connection's own segments occurred"),
                witness(p, mon, actions, params),
            );
            return false;
        }
    }
    true
}

fn step_check(p: &mut Pair, mon: &mut Mon, d: &mut Delta, actions: &[String], params: &Value) -> Option<bool> {
    if let Some(e) = &p.panic {
        let (msg, loc) = split_panic(e);
        d.violation(format!("panic:{loc}"), format!("TCB call panicked: {msg}"), witness(p, mon, actions, params));
        return Some(false);
    }
    if let Some((sig, what)) = mon.digest(p) {
        d.violation(sig, what, witness(p, mon, actions, params));
        return Some(false);
    }
    for s in [A, B] {
        let o = 1 - s;
        if !is_prefix(&p.sides[s].delivered, &p.sides[o].submitted) {
            d.violation("stream-corrupted", format!("bytes read by {} are not a prefix of what {} wrote", side_name(s), side_name(o)), witness(p, mon, actions, params));
            return Some(false);
        }
    }
    None
}

// ---------------------------------------------------------------- random schedules

fn random_schedule(env: &Env, k: u64, case: u64, rng: &mut impl Rng, d: &mut Delta) {
    d.evaluations += 1;
    let style = if rng.chance(3, 5) { OpenStyle::ActivePassive } else { OpenStyle::Simultaneous };
    let mtu = *rng.pick(&[100u16, 576, 1500, 65535]);
    let (ia, ib) = (pick_isn(rng), pick_isn(rng));
    let params = json!({"kind": "random", "open": format!("{style:?}"), "mtu": mtu, "iss": [ia, ib], "scenario": k, "case": case});
    let mut p = Pair::new(style, ia, ib, mtu);
    let mut mon = Mon::new();
    let mut actions: Vec<String> = vec![];
    let steps = rng.gen_range(5..80);
    let mut drops = 0;
    let mut dups = 0;
    let inject_old_syn = style == OpenStyle::ActivePassive && rng.chance(1, 5);
    if step_check(&mut p, &mut mon, d, &actions, &params).is_some() {
        return;
    }
    for stepi in 0..steps {
        let side = rng.gen_range(0..2);
        let r = rng.gen_range(0..100);
        if inject_old_syn && stepi == 1 {
            // an old duplicate SYN from an earlier incarnation of A reaches B before the real one
            // its initial sequence number may lie on either side of the current one, near or far
            let dist = if rng.chance(1, 2) { rng.gen_range(1..200u32) } else { rng.gen_range(1000..100000u32) };
            let old_iss = if rng.chance(1, 2) { ia.wrapping_sub(dist) } else { ia.wrapping_add(dist) };
            let t = elvis_core::protocols::tcp::verif::Tcb::open(endpoints(A), old_iss, mtu);
            let mut t = t;
            for seg in t.segments() {
                let uid = p.next_uid;
                p.next_uid += 1;
                p.net.insert(0, Flight { to: B, seg, uid, injected: true });
            }
            mon.injected_old_syn = true;
            actions.push("inject-old-duplicate-SYN".into());
            continue;
        }
        if r < 8 {
            let n = if mtu >= 1500 && rng.chance(1, 5) { *rng.pick(&[70000usize, 200000]) } else { *rng.pick(&[1usize, 1, 100, 3000]) };
            if p.write(side, n) {
                actions.push(format!("write{}:{n}", side_name(side)));
            }
        } else if r < 30 {
            p.pump(side);
            actions.push(format!("pump{}", side_name(side)));
        } else if r < 60 {
            if !p.net.is_empty() {
                let i = if rng.chance(1, 2) { 0 } else { rng.gen_range(0..p.net.len()) };
                actions.push(format!("deliver#{i}[{}]", flag_names(crate_flags(&p.net[i]))));
                p.deliver(i);
                if step_check(&mut p, &mut mon, d, &actions, &params).is_some() {
                    return;
                }
                p.read(A);
                p.read(B);
            }
        } else if r < 66 && drops < 3 {
            if !p.net.is_empty() {
                let i = rng.gen_range(0..p.net.len());
                actions.push(format!("drop#{i}[{}]", flag_names(crate_flags(&p.net[i]))));
                p.drop_flight(i);
                drops += 1;
            }
        } else if r < 70 && dups < 2 {
            if !p.net.is_empty() {
                let i = rng.gen_range(0..p.net.len());
                actions.push(format!("dup#{i}"));
                p.duplicate(i);
                dups += 1;
            }
        } else if r < 82 {
            let ms = *rng.pick(&[1u64, 50, 101]);
            p.tick(side, ms);
            actions.push(format!("tick{}:{ms}", side_name(side)));
        } else if r < 90 {
            if p.close(side).is_some() {
                actions.push(format!("close{}", side_name(side)));
            }
        } else {
            p.read(side);
        }
        if step_check(&mut p, &mut mon, d, &actions, &params).is_some() {
            return;
        }
    }
    // closing phase: usually both, sometimes only one side
    let who = rng.gen_range(0..10);
    let order: Vec<usize> = match who {
        0 => vec![A],
        1 => vec![B],
        2..=5 => vec![A, B],
        _ => vec![B, A],
    };
    for (i, s) in order.iter().enumerate() {
        // make sure the connection exists before closing (close is defined "at any time after the connection exists")
        let mut guard = 0;
        while p.sides[*s].tcb.is_none() && !p.sides[*s].released && guard < 30 {
            guard += 1;
            p.fair_round(101, true);
            if step_check(&mut p, &mut mon, d, &actions, &params).is_some() {
                return;
            }
        }
        // optionally leave data queued / in flight at the moment of close
        let big: &[usize] = if mtu >= 1500 { &[1, 3000, 70000, 200000] } else { &[1, 3000] };
        match rng.gen_range(0..4) {
            0 => {
                if p.write(*s, *rng.pick(big)) {
                    actions.push(format!("write{}-just-before-close", side_name(*s)));
                }
            }
            1 => {
                if p.write(*s, *rng.pick(big)) {
                    p.pump(*s);
                    actions.push(format!("write+pump{}-just-before-close", side_name(*s)));
                }
            }
            _ => {}
        }
        if step_check(&mut p, &mut mon, d, &actions, &params).is_some() {
            return;
        }
        if p.close(*s).is_some() {
            actions.push(format!("close{}", side_name(*s)));
        }
        if step_check(&mut p, &mut mon, d, &actions, &params).is_some() {
            return;
        }
        if i == 0 && rng.chance(1, 2) {
            for _ in 0..rng.gen_range(1..4) {
                p.fair_round(*rng.pick(&[1u64, 101]), true);
                if step_check(&mut p, &mut mon, d, &actions, &params).is_some() {
                    return;
                }
            }
        }
    }
    let ok = complete_and_check(&mut p, &mut mon, &mut actions, d, &params);
    for e in &mon.edges {
        d.saw("rfc9293_edges", e.clone());
    }
    d.tally("transitions_observed", mon.trace.len() as u64);
    if ok && p.sides[A].close_called && p.sides[B].close_called {
        d.nontrivial(crate::fnv_str(&mon.trace.join("|")) ^ crate::fnv_str(&actions.join(",")));
    }
    if case == 0 && k < 2 {
        d.sample(json!({"params": params, "actions": actions.iter().take(40).collect::<Vec<_>>(), "transitions": mon.trace}));
    }
    let _ = env;
}

fn crate_flags(f: &Flight) -> u8 {
    let c = f.seg.header.ctl;
    (c.fin() as u8) | (c.syn() as u8) << 1 | (c.rst() as u8) << 2 | (c.psh() as u8) << 3 | (c.ack() as u8) << 4 | (c.urg() as u8) << 5
}

// ---------------------------------------------------------------- bounded DFS over executions

#[derive(Clone)]
struct Node {
    p: Pair,
    mon: Mon,
    actions: Vec<String>,
    drops: u8,
    dups: u8,
    ticks: u8,
    closed: [bool; 2],
    wrote: [bool; 2],
    depth: u32,
}

fn node_hash(n: &Node) -> u64 {
    let mut h = 0xcbf29ce484222325u64;
    let mut add = |x: u64| h = crate::mix(h, x);
    for s in [A, B] {
        match n.p.sides[s].snap() {
            Some(sn) => {
                add(sn.state as u64);
                add(sn.snd_una as u64);
                add(sn.snd_nxt as u64);
                add(sn.rcv_nxt as u64);
                add(sn.text_len as u64);
                add(sn.retransmit_len as u64);
                add(sn.heap_len as u64);
                add(sn.incoming_len as u64);
                add(sn.retransmission_ms);
                add(sn.time_wait_ms.unwrap_or(9999));
            }
            None => add(if n.p.sides[s].released { 77 } else if n.p.sides[s].listening { 78 } else { 79 }),
        }
        add(n.p.sides[s].delivered.len() as u64);
    }
    let mut fl: Vec<u64> = n
        .p
        .net
        .iter()
        .map(|f| crate::mix(crate::mix(f.seg.header.seq as u64, f.seg.header.ack as u64), (crate_flags(f) as u64) << 40 | (f.seg.text.len() as u64) << 8 | f.to as u64))
        .collect();
    fl.sort();
    for x in fl {
        add(x);
    }
    add(n.drops as u64 | (n.dups as u64) << 8 | (n.ticks as u64) << 16 | (n.closed[0] as u64) << 24 | (n.closed[1] as u64) << 25 | (n.wrote[0] as u64) << 26 | (n.wrote[1] as u64) << 27);
    h
}

fn dfs(env: &Env, k: u64, d: &mut Delta) {
    let mut rng = scenario_rng("C03dfs", env.seed, k);
    let style = if k % 2 == 0 { OpenStyle::ActivePassive } else { OpenStyle::Simultaneous };
    let (ia, ib) = match k % 3 {
        0 => (100, 300),
        1 => (u32::MAX - 1, u32::MAX),
        _ => (pick_isn(&mut rng), pick_isn(&mut rng)),
    };
    let write_size = if (k / 2) % 2 == 0 { 1usize } else { 3000 };
    let max_depth = 14;
    let budget = env.tier.pick3(12_000u64, 60_000, 120);
    let params = json!({"kind": "bounded-dfs", "open": format!("{style:?}"), "iss": [ia, ib], "write_size": write_size, "max_depth": max_depth, "state_budget": budget, "scenario": k});
    let mut root = Node {
        p: Pair::new(style, ia, ib, 1500),
        mon: Mon::new(),
        actions: vec![],
        drops: 0,
        dups: 0,
        ticks: 0,
        closed: [false, false],
        wrote: [false, false],
        depth: 0,
    };
    // emitted segments enter the network automatically
    auto_pump(&mut root);
    if step_check(&mut root.p, &mut root.mon, d, &root.actions, &params).is_some() {
        return;
    }
    let mut visited: HashSet<u64> = HashSet::new();
    let mut stack = vec![root];
    let mut expanded = 0u64;
    let mut leaves = 0u64;
    let mut transitions = 0u64;
    let mut violations = 0;
    while let Some(node) = stack.pop() {
        if expanded >= budget || violations >= 3 {
            break;
        }
        if !visited.insert(node_hash(&node)) {
            continue;
        }
        expanded += 1;
        d.evaluations += 1;
        let terminal = node.depth >= max_depth || (node.p.sides[A].released && node.p.sides[B].released);
        if terminal || (node.p.net.is_empty() && node.closed == [true, true] && rng.chance(1, 3)) {
            // complete over a fair network and judge release
            let mut leaf = node.clone();
            leaves += 1;
            if !leaf.closed[A] || !leaf.closed[B] {
                // close whoever has not closed yet (half of the time) so that release can be judged
                if rng.chance(1, 2) {
                    for s in [A, B] {
                        if !leaf.closed[s] && leaf.p.close(s).is_some() {
                            leaf.actions.push(format!("close{}", side_name(s)));
                            if step_check(&mut leaf.p, &mut leaf.mon, d, &leaf.actions, &params).is_some() {
                                violations += 1;
                            }
                        }
                    }
                }
            }
            let before = d.violations.len();
            let ok = complete_and_check(&mut leaf.p, &mut leaf.mon, &mut leaf.actions, d, &params);
            if d.violations.len() > before {
                violations += 1;
            }
            for e in &leaf.mon.edges {
                d.saw("rfc9293_edges", e.clone());
            }
            transitions += leaf.mon.trace.len() as u64;
            if ok && leaf.p.sides[A].close_called && leaf.p.sides[B].close_called {
                d.nontrivial(crate::fnv_str(&leaf.mon.trace.join("|")) ^ crate::fnv_str(&leaf.actions.join(",")));
            }
            if leaves == 1 && k < 2 {
                d.sample(json!({"params": params, "one_enumerated_execution": leaf.actions, "transitions": leaf.mon.trace}));
            }
            if terminal {
                continue;
            }
        }
        // successors
        let mut succ: Vec<Node> = vec![];
        let nflight = node.p.net.len();
        let mut seen_flights: Vec<(u32, u32, u8, usize, usize)> = vec![];
        for i in 0..nflight {
            let f = &node.p.net[i];
            let key = (f.seg.header.seq, f.seg.header.ack, crate_flags(f), f.seg.text.len(), f.to);
            if seen_flights.contains(&key) {
                continue; // identical copies are interchangeable
            }
            seen_flights.push(key);
            let name = format!("[{}{} s{} a{} l{}]", if f.to == A { "->A " } else { "->B " }, flag_names(key.2), key.0, key.1, key.3);
            let mut n1 = node.clone();
            n1.actions.push(format!("deliver{name}"));
            n1.p.deliver(i);
            succ.push(n1);
            if node.drops < 2 {
                let mut n2 = node.clone();
                n2.actions.push(format!("drop{name}"));
                n2.p.drop_flight(i);
                n2.drops += 1;
                succ.push(n2);
            }
            if node.dups < 1 {
                let mut n3 = node.clone();
                n3.actions.push(format!("dup{name}"));
                n3.p.duplicate(i);
                n3.dups += 1;
                succ.push(n3);
            }
        }
        if node.ticks < 2 {
            let mut n4 = node.clone();
            n4.actions.push("timer:101ms".into());
            n4.p.tick(A, 101);
            n4.p.tick(B, 101);
            n4.ticks += 1;
            succ.push(n4);
        }
        for s in [A, B] {
            if !node.closed[s] && node.p.sides[s].tcb.is_some() {
                let mut n5 = node.clone();
                if n5.p.close(s).is_some() {
                    n5.actions.push(format!("close{}", side_name(s)));
                    n5.closed[s] = n5.p.sides[s].close_called;
                    if n5.closed[s] {
                        succ.push(n5);
                    }
                }
            }
            if !node.wrote[s] && !node.closed[s] {
                let mut n6 = node.clone();
                if n6.p.write(s, write_size) {
                    n6.actions.push(format!("write{}:{write_size}", side_name(s)));
                    n6.wrote[s] = true;
                    succ.push(n6);
                }
            }
        }
        // check every successor transition, then push survivors (random order for budgeted diversity)
        use rand::seq::SliceRandom;
        succ.shuffle(&mut rng);
        for mut n in succ {
            n.depth = node.depth + 1;
            if let Some(_) = step_check(&mut n.p, &mut n.mon, d, &n.actions, &params) {
                violations += 1;
                continue;
            }
            n.p.read(A);
            n.p.read(B);
            auto_pump(&mut n);
            if let Some(_) = step_check(&mut n.p, &mut n.mon, d, &n.actions, &params) {
                violations += 1;
                continue;
            }
            stack.push(n);
        }
    }
    d.tally("dfs_states_expanded", expanded);
    d.tally("dfs_leaves_completed", leaves);
    d.tally("transitions_observed", transitions);
    d.tally("dfs_exhausted_within_budget", (stack.is_empty() && expanded < budget) as u64);
}

fn auto_pump(n: &mut Node) {
    n.p.pump(A);
    n.p.pump(B);
}

fn run(env: &Env, k: u64, d: &mut Delta) {
    if k % 5 == 0 {
        dfs(env, k / 5, d);
    } else {
        let mut rng = scenario_rng("C03", env.seed, k);
        for case in 0..env.tier.pick3(120, 400, 2) {
            random_schedule(env, k, case, &mut rng, d);
        }
    }
}
