//! C04 — datagrams reach exactly the listener bound to their address and port.

use crate::net::*;
use crate::{scenario_rng, Delta, Env, PropDef, RngExt};
use elvis_core::{
    network::{Latency, Mac, NetworkBuilder},
    protocols::{
        ipv4::{ipv4_parsing::Ipv4Header, Ipv4, Ipv4Address, Recipient},
        Arp, Endpoint, Endpoints, Pci, Udp,
    },
    run_internet, IpTable, Machine, Message,
};
use rand::Rng;
use serde_json::{json, Value};
use std::{
    collections::HashMap,
    sync::{Arc, Mutex},
    time::Duration,
};

pub static DEF: PropDef = PropDef {
    id: "C04",
    level: "exploration",
    total: |t| t.pick(768, 25600),
    run,
    rule: "2..6 machines on one network, ARP on none, all or a random subset of them, 0..4 recording applications each, bindings drawn from {own address, another machine's address, 0.0.0.0, 255.255.255.255} x 4 ports (so exact/wildcard competition and repeated binds are frequent), 1..30 datagrams from random senders to (address, port) pairs over the same sets plus unbound ports, 127.0.0.1 and unclaimed addresses, payloads of 0, 1, MTU-28 and MTU-27 (must be refused) bytes, latency 0..5 ms so arrivals interleave. For every datagram the H4 hook tells which taps the frame reached; on each such machine (and on the sender itself for loopback) the expected receiver is computed by a reference rule (exact binding, else wildcard, else nobody) and compared with the demux events actually recorded, including payload, source/destination address and port in Control. Non-trivial = configuration with an exact/wildcard competition on one machine AND a datagram for which no binding exists; distinct by configuration hash.",
    assumptions: &[
        "which machines a frame reaches is taken from the hook's observation, not modelled (without ARP frames are broadcast at link level; with ARP they go to whoever answered the request)",
        "first binding of an endpoint on a machine wins; later binds of the same endpoint must return Err",
    ],
    may_exit_process: true,
    watchdog_s: 300,
    nt_floor: |t| t.pick(20, 300),
};

const PORTS: [u16; 4] = [53, 4000, 4001, 65535];

#[derive(Clone, Debug)]
struct Bind {
    machine: usize,
    app: usize,
    addr: u32,
    port: u16,
    /// None: bound in start() before the barrier; Some(us): bound while traffic is already flowing
    late_us: Option<u64>,
}

#[derive(Clone, Debug)]
struct Dgram {
    id: u32,
    machine: usize,
    app: usize,
    sport: u16,
    addr: u32,
    port: u16,
    len: usize,
    at_ms: u64,
    /// part of a flow: several datagrams share (sender, source port, destination); identified by the payload tag
    shared: bool,
}

#[derive(Clone, Debug, Default)]
struct SendRes {
    opened: bool,
    sent_ok: bool,
    err: String,
}

fn ip(x: u32) -> Ipv4Address {
    Ipv4Address::from(x)
}

fn payload_of(id: u32, len: usize) -> Vec<u8> {
    let mut v = Vec::with_capacity(len);
    let tag = id.to_be_bytes();
    for i in 0..len {
        v.push(if i < 4 { tag[i] } else { (id as usize * 7 + i) as u8 });
    }
    v
}

fn scenario(env: &Env, k: u64, case: u64, rng: &mut rand::rngs::SmallRng, d: &mut Delta) {
    d.evaluations += 1;
    let n = rng.gen_range(2..=6usize);
    // ARP on none, all, or an arbitrary subset of the machines (a sender without ARP broadcasts at link
    // level, so its frames also reach machines that do run ARP)
    let arp_mode = rng.gen_range(0..3);
    let has_arp: Vec<bool> = (0..n).map(|_| match arp_mode { 0 => false, 1 => true, _ => rng.chance(1, 2) }).collect();
    let mtu = *rng.pick(&[100u16, 576, 1500]);
    let lat = *rng.pick(&[0u64, 1, 5]);
    let addr: Vec<u32> = (0..n).map(|m| 0x0A00_0001 + m as u32).collect();
    let napps: Vec<usize> = (0..n).map(|_| rng.gen_range(0..=4usize)).collect();
    // bindings in the order they will be attempted (per machine sequentially, app by app)
    let mut binds: Vec<Bind> = vec![];
    for m in 0..n {
        for a in 0..napps[m] {
            for _ in 0..rng.gen_range(1..=3) {
                let addr_choice = match rng.gen_range(0..6) {
                    0 | 1 => addr[m],
                    2 => addr[(m + 1) % n],
                    3 | 4 => 0,
                    _ => 0xFFFF_FFFF,
                };
                binds.push(Bind { machine: m, app: a, addr: addr_choice, port: *rng.pick(&PORTS[..3]), late_us: None });
            }
        }
    }
    // late binds: made while datagrams are already arriving (half of the scenarios). The binding in force when a
    // datagram arrives decides, so a flow that started under the wildcard must move to an exact binding made later.
    let with_late = rng.chance(1, 2);
    if with_late {
        for _ in 0..rng.gen_range(1..=5) {
            let m = rng.gen_range(0..n);
            if napps[m] == 0 {
                continue;
            }
            let a = rng.gen_range(0..napps[m]);
            let addr_choice = match rng.gen_range(0..6) {
                0 | 1 | 2 => addr[m],
                3 => addr[(m + 1) % n],
                4 => 0,
                _ => 0xFFFF_FFFF,
            };
            binds.push(Bind { machine: m, app: a, addr: addr_choice, port: *rng.pick(&PORTS[..3]), late_us: Some(rng.gen_range(1..60) * 1000 + 500) });
        }
    }
    // datagrams
    let nd = rng.gen_range(1..=30usize);
    let senders: Vec<(usize, usize)> = (0..n).flat_map(|m| (0..napps[m]).map(move |a| (m, a))).collect();
    if senders.is_empty() {
        d.tally("configs_without_apps", 1);
        return;
    }
    let mut dgrams = vec![];
    for id in 0..nd as u32 {
        let (m, a) = senders[rng.gen_range(0..senders.len())];
        let to = match rng.gen_range(0..10) {
            0 => 0x7F00_0001,
            1 => 0x0A00_00C8, // unclaimed
            2 => 0xFFFF_FFFF,
            _ => addr[rng.gen_range(0..n)],
        };
        let len = match rng.gen_range(0..8) {
            0 => 0,
            1 => 1,
            2 => mtu as usize - 28,
            3 => mtu as usize - 27,
            _ => rng.gen_range(4..=64),
        };
        dgrams.push(Dgram { id: id + 1, machine: m, app: a, sport: 1000 + id as u16, addr: to, port: *rng.pick(&PORTS), len, at_ms: rng.gen_range(0..40), shared: false });
    }
    if with_late {
        // flows: the same (sender, source port) -> (address, port) used again and again across the late binds
        let mut id = nd as u32;
        for f in 0..rng.gen_range(1..=3u16) {
            let (m, a) = senders[rng.gen_range(0..senders.len())];
            let to = if rng.chance(1, 6) { 0xFFFF_FFFF } else { addr[rng.gen_range(0..n)] };
            let port = *rng.pick(&PORTS[..3]);
            for _ in 0..rng.gen_range(2..=6) {
                id += 1;
                dgrams.push(Dgram { id, machine: m, app: a, sport: 2000 + f, addr: to, port, len: rng.gen_range(4..=40), at_ms: rng.gen_range(0..70), shared: true });
            }
        }
    }
    let desc = json!({
        "machines": n, "arp": has_arp, "mtu": mtu, "latency_ms": lat, "apps_per_machine": napps,
        "binds": binds.iter().map(|b| format!("m{} app{} {}:{}{}", b.machine, b.app, ip(b.addr), b.port, b.late_us.map(|u| format!(" late at {u}us")).unwrap_or_default())).collect::<Vec<_>>(),
        "datagrams": dgrams.iter().map(|g| format!("#{} m{} app{} :{} -> {}:{} len {} at {}ms", g.id, g.machine, g.app, g.sport, ip(g.addr), g.port, g.len, g.at_ms)).collect::<Vec<_>>(),
        "scenario": k, "case": case,
    });

    let bind_results: Arc<Mutex<Vec<(usize, bool, Duration)>>> = Arc::new(Mutex::new(vec![])); // (index in binds, ok, virtual time)
    let send_results: Arc<Mutex<HashMap<u32, SendRes>>> = Arc::new(Mutex::new(HashMap::new()));
    let log: Log = Arc::new(Mutex::new(vec![]));
    let (rec, macs) = {
        let binds = binds.clone();
        let dgrams = dgrams.clone();
        let bind_results = bind_results.clone();
        let send_results = send_results.clone();
        let log = log.clone();
        let addr = addr.clone();
        let napps = napps.clone();
        let has_arp = has_arp.clone();
        run_paused(async move {
            let mut b = NetworkBuilder::new().mtu(mtu);
            if lat > 0 {
                b = b.latency(Latency::variable(ms(0), ms(lat)));
            }
            let net = b.build();
            let rec = Recorder::passive();
            net.set_verif_hook(rec.clone());
            let t0 = tokio::time::Instant::now();
            let mut machines = vec![];
            let mut macs: Vec<Mac> = vec![];
            for m in 0..n {
                let pci = Pci::new([net.clone()]);
                macs.push(pci.mac_addresses().next().unwrap());
                let table: IpTable<Recipient> = IpTable::default_gateway(Recipient::new(0, None));
                let mut machine = Machine::new().with(pci).with(Ipv4::new(table)).with(Udp::new());
                if has_arp[m] {
                    machine = machine.with(Arp::new());
                }
                // a machine without applications still needs its address known to ARP
                for a in 0..napps[m].max(1) {
                    let my_binds: Vec<(usize, Bind)> = binds.iter().cloned().enumerate().filter(|(_, b)| b.machine == m && b.app == a && b.late_us.is_none()).collect();
                    let mut my_late: Vec<(usize, Bind)> = binds.iter().cloned().enumerate().filter(|(_, b)| b.machine == m && b.app == a && b.late_us.is_some()).collect();
                    my_late.sort_by_key(|(_, b)| b.late_us);
                    let late_results = bind_results.clone();
                    let my_dgrams: Vec<Dgram> = {
                        let mut v: Vec<Dgram> = dgrams.iter().filter(|g| g.machine == m && g.app == a).cloned().collect();
                        v.sort_by_key(|g| g.at_ms);
                        v
                    };
                    let bind_results = bind_results.clone();
                    let send_results = send_results.clone();
                    let own = addr[m];
                    let mut parts = AppParts::new(m, log.clone(), t0);
                    parts.setup = Some(Box::new(move |machine, me| {
                        Box::pin(async move {
                            if let Some(arp) = machine.protocol::<Arp>() {
                                arp.listen(ip(own));
                            }
                            let udp = machine.protocol::<Udp>().unwrap();
                            for (idx, b) in my_binds {
                                let r = udp.listen(me, Endpoint::new(ip(b.addr), b.port), machine.clone());
                                bind_results.lock().unwrap().push((idx, r.is_ok(), t0.elapsed()));
                            }
                        })
                    }));
                    parts.body = Some(Box::new(move |machine, me, shutdown| {
                        Box::pin(async move {
                            let udp = machine.protocol::<Udp>().unwrap();
                            let mut handles = vec![];
                            if !my_late.is_empty() {
                                let (udp, machine) = (udp.clone(), machine.clone());
                                handles.push(tokio::spawn(async move {
                                    for (idx, b) in my_late {
                                        tokio::time::sleep_until(t0 + Duration::from_micros(b.late_us.unwrap())).await;
                                        let r = udp.listen(me, Endpoint::new(ip(b.addr), b.port), machine.clone());
                                        late_results.lock().unwrap().push((idx, r.is_ok(), t0.elapsed()));
                                    }
                                }));
                            }
                            for g in my_dgrams {
                                let machine = machine.clone();
                                let udp = udp.clone();
                                let send_results = send_results.clone();
                                handles.push(tokio::spawn(async move {
                                    tokio::time::sleep(ms(g.at_ms)).await;
                                    let eps = Endpoints::new(Endpoint::new(ip(own), g.sport), Endpoint::new(ip(g.addr), g.port));
                                    let mut res = SendRes::default();
                                    match udp.open_for_sending(me, eps, machine.clone()).await {
                                        Ok(sess) => {
                                            res.opened = true;
                                            match sess.send(Message::new(payload_of(g.id, g.len)), machine.clone()) {
                                                Ok(()) => res.sent_ok = true,
                                                Err(e) => res.err = format!("{e:?}"),
                                            }
                                        }
                                        Err(e) => res.err = format!("{e:?}"),
                                    }
                                    send_results.lock().unwrap().insert(g.id, res);
                                }));
                            }
                            for h in handles {
                                let _ = h.await;
                            }
                            if m == 0 && a == 0 {
                                tokio::time::sleep(Duration::from_secs(6)).await;
                                shutdown.shut_down();
                            }
                        })
                    }));
                    machine = with_app(machine, a, || parts);
                }
                machines.push(machine.arc());
            }
            let _ = run_internet(&machines, Some(Duration::from_secs(20))).await;
            (rec, macs)
        })
    };
    let frames = rec.snapshot();
    let events = log.lock().unwrap().clone();
    let sres = send_results.lock().unwrap().clone();
    let bres = bind_results.lock().unwrap().clone();
    d.tally("datagrams", dgrams.len() as u64);
    d.tally("demux_events", events.len() as u64);
    let witness = |extra: Value| json!({"config": desc, "detail": extra});

    // bindings: first bind of an endpoint on a machine succeeds, later ones must fail
    let mut table: Vec<HashMap<(u32, u16), (usize, Duration)>> = vec![HashMap::new(); n]; // machine -> endpoint -> (app, bound since)
    let mut competition = false;
    let mut order: Vec<(usize, bool, Duration)> = bres.clone();
    order.sort_by_key(|x| x.0);
    if order.len() != binds.len() {
        d.inconclusive += 1;
        return;
    }
    // the real attempt order across applications of one machine is the order setup() ran in; within one
    // application it is program order. Applications start concurrently, so judge by outcome consistency:
    // per endpoint exactly one attempt succeeded, and it is the one recorded first in time for that machine.
    for m in 0..n {
        let mut by_ep: HashMap<(u32, u16), Vec<(usize, bool)>> = HashMap::new();
        for (idx, ok, _) in bres.iter() {
            let b = &binds[*idx];
            if b.machine == m {
                by_ep.entry((b.addr, b.port)).or_default().push((*idx, *ok));
            }
        }
        for (ep, attempts) in by_ep {
            let oks: Vec<&(usize, bool)> = attempts.iter().filter(|a| a.1).collect();
            if oks.len() != 1 {
                d.violation(
                    if oks.is_empty() { "bind:all-attempts-refused" } else { "bind:duplicate-bind-accepted" },
                    format!("machine {m}: {} of {} binds of {}:{} succeeded (exactly the first must)", oks.len(), attempts.len(), ip(ep.0), ep.1),
                    witness(json!({"attempts": attempts.iter().map(|a| format!("{:?} ok={}", binds[a.0], a.1)).collect::<Vec<_>>()})),
                );
                return;
            }
            // attempts are recorded in the order they happened (same mutex): the successful one must be the first
            if !attempts[0].1 {
                d.violation("bind:later-bind-displaced-first", format!("machine {m}: the first bind of {}:{} failed but a later one succeeded", ip(ep.0), ep.1), witness(json!({})));
                return;
            }
            let since = bres.iter().find(|x| x.0 == oks[0].0).map(|x| x.2).unwrap_or(Duration::ZERO);
            table[m].insert(ep, (binds[oks[0].0].app, since));
        }
        // exact/wildcard competition present?
        for ((a, p), _) in table[m].iter() {
            if *a != 0 && table[m].contains_key(&(0, *p)) {
                competition = true;
            }
        }
    }
    // the binding in force at virtual time `at`; Err(()) when a relevant bind happened at exactly that instant
    let expected_app = |m: usize, a: u32, p: u16, at: Option<Duration>| -> Result<Option<usize>, ()> {
        let pick = |ep: (u32, u16)| -> Result<Option<usize>, ()> {
            match (table[m].get(&ep), at) {
                (None, _) => Ok(None),
                (Some((app, since)), _) if *since == Duration::ZERO => Ok(Some(*app)),
                (Some(_), None) => Err(()),
                (Some((app, since)), Some(t)) => {
                    if *since == t {
                        Err(())
                    } else if *since < t {
                        Ok(Some(*app))
                    } else {
                        Ok(None)
                    }
                }
            }
        };
        match pick((a, p))? {
            Some(app) => Ok(Some(app)),
            None => pick((0, p)),
        }
    };

    let mut unbound_seen = false;
    for g in &dgrams {
        let r = match sres.get(&g.id) {
            Some(r) => r.clone(),
            None => {
                d.violation("send-never-completed", format!("datagram #{} was never sent or refused within the run", g.id), witness(json!({"datagram": format!("{g:?}")})));
                return;
            }
        };
        let pl = payload_of(g.id, g.len);
        let mine: Vec<&DemuxEvent> = events
            .iter()
            .filter(|e| e.udp.map(|u| u.source == g.sport).unwrap_or(false) && e.ipv4.map(|h| h.source == ip(addr[g.machine])).unwrap_or(false))
            .filter(|e| !g.shared || (e.payload.len() >= 4 && e.payload[..4] == g.id.to_be_bytes()))
            .collect();
        let too_big = g.len + 28 > mtu as usize && (g.addr >> 24) != 127;
        if too_big {
            if r.sent_ok {
                d.violation("oversize-datagram-accepted", format!("datagram #{} of {} bytes was accepted although MTU is {mtu}", g.id, g.len), witness(json!({"datagram": format!("{g:?}")})));
                return;
            }
            if !mine.is_empty() {
                d.violation("refused-datagram-delivered", format!("datagram #{} was refused at the sender yet delivered", g.id), witness(json!({"datagram": format!("{g:?}")})));
                return;
            }
            continue;
        }
        // where did the frame go?
        let mut reached: Vec<(usize, Option<Duration>)> = vec![];
        let loopback = (g.addr >> 24) == 127;
        if loopback {
            if r.sent_ok || r.opened {
                reached.push((g.machine, None));
            }
        } else {
            for f in frames.iter().filter(|f| f.kind == Kind::Ipv4) {
                // identify by IPv4 source + UDP source port
                if f.bytes.len() >= 28 {
                    if let Ok(h) = Ipv4Header::from_bytes(f.bytes.iter().cloned()) {
                        let sp = u16::from_be_bytes([f.bytes[20], f.bytes[21]]);
                        let tag_ok = !g.shared || (f.bytes.len() >= 32 && f.bytes[28..32] == g.id.to_be_bytes());
                        if h.source == ip(addr[g.machine]) && sp == g.sport && h.protocol == 17 && tag_ok {
                            for (tap, at, _) in &f.deliveries {
                                if let Some(m) = macs.iter().position(|x| x == tap) {
                                    reached.push((m, Some(*at)));
                                }
                            }
                        }
                    }
                }
            }
        }
        if !r.opened {
            d.tally("datagrams_not_sendable", 1);
        }
        let mut any_expected = false;
        for m in 0..n {
            let here: Vec<&&DemuxEvent> = mine.iter().filter(|e| e.machine == m).collect();
            let times_reached = reached.iter().filter(|x| x.0 == m).count();
            let want = if times_reached > 0 {
                let at = reached.iter().find(|x| x.0 == m).and_then(|x| x.1);
                match expected_app(m, g.addr, g.port, at) {
                    Ok(w) => w,
                    Err(()) => {
                        // a bind of this very endpoint at the very instant of arrival (or, for loopback, at an
                        // instant the hook does not see): either outcome is correct
                        d.tally("arrivals_simultaneous_with_a_bind_not_judged", 1);
                        continue;
                    }
                }
            } else {
                None
            };
            if times_reached > 0 && table[m].iter().any(|(ep, (_, since))| ep.1 == g.port && *since > Duration::ZERO) {
                d.tally("arrivals_judged_against_time_dependent_bindings", 1);
            }
            if want.is_some() {
                any_expected = true;
            }
            match want {
                None => {
                    if !here.is_empty() {
                        d.violation(
                            if times_reached == 0 { "delivered-where-frame-never-arrived" } else { "delivered-without-binding" },
                            format!(
                                "datagram #{} to {}:{} was delivered to application {} on machine {m}, which has no binding for it (bindings there: {:?})",
                                g.id,
                                ip(g.addr),
                                g.port,
                                here[0].app,
                                table[m].iter().map(|(k, v)| format!("{}:{}->app{} since {:?}", ip(k.0), k.1, v.0, v.1)).collect::<Vec<_>>()
                            ),
                            witness(json!({"datagram": format!("{g:?}")})),
                        );
                        return;
                    }
                }
                Some(app) => {
                    if here.len() != times_reached || here.iter().any(|e| e.app != app) {
                        let exact = table[m].contains_key(&(g.addr, g.port));
                        let late = table[m].iter().any(|(ep, (_, since))| ep.1 == g.port && *since > Duration::ZERO);
                        let sig = if here.iter().any(|e| e.app != app) {
                            if exact && late { "wrong-listener:exact-binding-made-later-bypassed" } else if exact { "wrong-listener:exact-binding-bypassed" } else { "wrong-listener" }
                        } else if here.len() < times_reached {
                            "not-delivered-to-bound-listener"
                        } else {
                            "delivered-more-than-once"
                        };
                        d.violation(
                            sig,
                            format!(
                                "datagram #{} to {}:{} reached machine {m} {times_reached} time(s) and belongs to application {app} there, but was delivered to {:?}",
                                g.id,
                                ip(g.addr),
                                g.port,
                                here.iter().map(|e| e.app).collect::<Vec<_>>()
                            ),
                            witness(json!({"datagram": format!("{g:?}"), "bindings": table[m].iter().map(|(k, v)| format!("{}:{}->app{} since {:?}", ip(k.0), k.1, v.0, v.1)).collect::<Vec<_>>()})),
                        );
                        return;
                    }
                    for e in here {
                        let (u, h) = (e.udp.unwrap(), e.ipv4.unwrap());
                        if e.payload != pl {
                            d.violation("payload-altered", format!("datagram #{} arrived with a different payload ({} bytes, sent {})", g.id, e.payload.len(), pl.len()), witness(json!({"datagram": format!("{g:?}")})));
                            return;
                        }
                        if u.destination != g.port || u.source != g.sport || h.destination != ip(g.addr) || h.source != ip(addr[g.machine]) {
                            d.violation("endpoints-altered", format!("datagram #{} arrived with endpoints {}:{} -> {}:{}", g.id, h.source, u.source, h.destination, u.destination), witness(json!({"datagram": format!("{g:?}")})));
                            return;
                        }
                    }
                }
            }
        }
        if !any_expected && !reached.is_empty() {
            unbound_seen = true;
        }
    }
    if competition && unbound_seen {
        d.nontrivial(crate::fnv_str(&desc.to_string()));
    }
    if case == 0 && k < 2 {
        d.sample(json!({"config": desc, "demux_events": events.len(), "ipv4_frames": frames.iter().filter(|f| f.kind == Kind::Ipv4).count()}));
    }
    let _ = env;
}

fn run(env: &Env, k: u64, d: &mut Delta) {
    let mut rng = scenario_rng("C04", env.seed, k);
    for case in 0..env.tier.pick(40, 60) {
        scenario(env, k, case, &mut rng, d);
    }
}
