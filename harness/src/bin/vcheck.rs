use vh::{driver, props, Tier};

fn usage() -> ! {
    eprintln!("usage: vcheck <ID> <quick|thorough> | vcheck <ID> --replay <file> | vcheck worker <ID> <tier> <seed> <start> <stride> <total> | vcheck tiny <ID> <seed> <shard> <nshards> <count> | vcheck list");
    std::process::exit(2);
}

fn main() {
    let args: Vec<String> = std::env::args().collect();
    if args.len() < 2 {
        usage();
    }
    if args[1] == "list" {
        for d in props::all() {
            println!("{}", d.id);
        }
        return;
    }
    if args[1] == "worker" {
        if args.len() != 8 {
            usage();
        }
        let def = props::find(&args[2]).unwrap_or_else(|| usage());
        let tier = Tier::parse(&args[3]).unwrap_or_else(|| usage());
        let p = |s: &String| s.parse::<u64>().unwrap_or_else(|_| usage());
        driver::worker_main(def, tier, p(&args[4]), p(&args[5]), p(&args[6]), p(&args[7]));
        return;
    }
    if args[1] == "tiny" {
        // vcheck tiny <ID> <seed> <shard> <nshards> <count>: in-process, no subprocesses, small sizes. This is what
        // runs under Miri (tools/sanitize.py); it is also runnable natively.
        if args.len() != 7 {
            usage();
        }
        let def = props::find(&args[2]).unwrap_or_else(|| usage());
        let p = |s: &String| s.parse::<u64>().unwrap_or_else(|_| usage());
        std::process::exit(driver::tiny_main(def, p(&args[3]), p(&args[4]), p(&args[5]), p(&args[6])));
    }
    let def = props::find(&args[1]).unwrap_or_else(|| usage());
    if args.len() >= 4 && args[2] == "--replay" {
        std::process::exit(driver::replay(def, &args[3]));
    }
    if args.len() < 3 {
        usage();
    }
    let tier = Tier::parse(&args[2]).unwrap_or_else(|| usage());
    let seed: u64 = std::env::var("VERIF_SEED")
        .ok()
        .and_then(|s| s.parse().ok())
        .unwrap_or(1);
    let out = driver::run_check(def, tier, seed);
    std::process::exit(out.exit_code);
}
