#!/bin/bash
# usage: ./thorough_all.sh [seed]   - runs every thorough check in turn, prints exit code and wall time per check
cd "$(dirname "$0")" || exit 2
export VERIF_SEED="${1:-1}"
for id in C01 C02 C03 C04 C05 C06 C07 C08 C09 C10 C11 C12 C13 C14 C15 C16 C17 C18 C19 C20; do
  s=$(date +%s); ./check $id thorough > thorough_$id.tmp 2>&1; c=$?
  echo "$id seed=$VERIF_SEED exit=$c wall=$(( $(date +%s)-s ))s $(grep -E '^\[C' thorough_$id.tmp | tail -1)"
  grep -E "^VIOLATION|^  signature|^KNOWN-FINDING" thorough_$id.tmp | head -6
done
